/-
Lemmas for Props/C02B.lean: the byte-level bridge of C01B, for DOCUMENTS.

`decodeDoc D (toC t)` - `json.Unmarshal(bytes, &payloadSkeleton{})` and the decodes
`UnmarshalDocument` makes of the raw members, on the concrete syntax of a rendered document tree -
is `Spec.docSkeletonOf` of the tree, up to `DocSke.abstr` (`ResSke.abstr` on every resource
skeleton inside `data` and `included`), which `unmarshalDocument` cannot observe.

Contents: canonical meta values (`metaCanon`: `json.Unmarshal` into `any` followed by
`json.Marshal` reproduces them: `anyOf_toC`, `mergeMeta_toC`); the shape predicates
(`DocTreeShape`, `errObjShape`); error objects member by member (`errMembers_toC`,
`decodeErr_toC`) and the `[]Error` slice with its backing array (`errItems_toC`,
`decodeErrors_toC`); the payload struct (`docMembers_toC`, `decodeDoc_toC`); every tree
`Spec.documentTree` gives has the shape, bounded depth and valid UTF-8 strings
(`documentTree_shape`).
-/
import Jsonapi.Proofs.RoundTripBytesLemmas
import Jsonapi.Proofs.RoundTripLemmas6
namespace Jsonapi
open Spec JsonL FullL GoMap

/-! ### canonical meta values -/

/-- keys strictly ascending (what `json.Marshal` writes for a map, and what the model's `Meta`
list must be for the decoded map to be listed the same way) -/
def keysAsc (ms : List (GoString × Json)) : Bool := decide (ms.Pairwise (fun a b => a.1 < b.1))

mutual
/-- a JSON value that `json.Unmarshal` into `any` followed by `json.Marshal` reproduces: the
keys of every object strictly ascending, every number literal a fixed point of `numCanon` -/
def metaCanon (nc : GoString → Option GoString) : Json → Bool
  | .num l => decide (nc l = some l)
  | .arr l => metaCanonList nc l
  | .obj ms => keysAsc ms && metaCanonMembers nc ms
  | _ => true
def metaCanonList (nc : GoString → Option GoString) : List Json → Bool
  | [] => true
  | v :: vs => metaCanon nc v && metaCanonList nc vs
def metaCanonMembers (nc : GoString → Option GoString) : List (GoString × Json) → Bool
  | [] => true
  | (_, v) :: ms => metaCanon nc v && metaCanonMembers nc ms
end


/-! ### the shape of a marshaled document (data documents) -/

/-- the `data` member: null, one resource object (an identifier object is one: `id` and `type`
only), an array of such -/
def docDataShape : Json → Bool
  | .null => true
  | .obj ms => ResTreeShape (.obj ms)
  | .arr l => l.all ResTreeShape
  | _ => false

/-- a member of `included`: a resource object with both `id` and `type` -/
def incItemShape (j : Json) : Bool := ResTreeShape j && (Spec.identOf j).isSome

def incShape : Json → Bool
  | .arr l => l.all incItemShape
  | _ => false

def metaObjOk (nc : GoString → Option GoString) : Json → Bool
  | .obj mm => metaCanon nc (.obj mm)
  | _ => false

/-- the `links` object of an error: distinct keys, string values -/
def errLinksOk : Json → Bool
  | .obj ls => decide ((ls.map (·.1)).Nodup) && ls.all (fun q => q.2.isStr)
  | _ => false

def errMemberOk (nc : GoString → Option GoString) (p : GoString × Json) : Bool :=
  (p.1 = K.id && p.2.isStr) || (p.1 = K.code && p.2.isStr) || (p.1 = K.status && p.2.isStr) ||
  (p.1 = K.title && p.2.isStr) || (p.1 = K.detail && p.2.isStr) ||
  (p.1 = K.links && errLinksOk p.2) || (p.1 = K.source && metaObjOk nc p.2) ||
  (p.1 = K.kmeta && metaObjOk nc p.2)

/-- an error object as `Error.MarshalJSON` writes it: distinct members among the five strings,
`links` (strings under distinct keys), `source` and `meta` (canonical objects) -/
def errObjShape (nc : GoString → Option GoString) : Json → Bool
  | .obj ms => decide ((ms.map (·.1)).Nodup) && ms.all (errMemberOk nc)
  | _ => false


def errsShape (nc : GoString → Option GoString) : Json → Bool
  | .arr l => l.all (errObjShape nc)
  | _ => false

/-- one top-level member of a document: `data`, `included`, `links` (anything), `jsonapi`
(anything), `meta` (a canonical object), `errors` (an array of error objects) -/
def docMemberOk (nc : GoString → Option GoString) (p : GoString × Json) : Bool :=
  (p.1 = K.data && docDataShape p.2) || (p.1 = K.included && incShape p.2) ||
    p.1 = K.links || p.1 = K.jsonapi || (p.1 = K.kmeta && metaObjOk nc p.2) ||
    (p.1 = K.errors && errsShape nc p.2)

/-- The image of `marshalDocument` as a decidable predicate (given `nc = D.numCanon`): an object
with distinct members among `data`, `included`, `links`, `jsonapi`, `meta`, `errors`. -/
def DocTreeShape (nc : GoString → Option GoString) : Json → Bool
  | .obj ms => decide ((ms.map (·.1)).Nodup) && ms.all (docMemberOk nc)
  | _ => false

/-! ### the conversion -/

def DataSke.abstr : DataSke → DataSke
  | .res r => .res (r.map ResSke.abstr)
  | .col l => .col (l.map (fun l => l.map (fun r => r.map ResSke.abstr)))
  | d => d

/-- `ResSke.abstr` on every resource skeleton of the payload skeleton (in `data` and in
`included`); nothing else changes -/
def DocSke.abstr (d : DocSke) : DocSke :=
  { data := d.data.abstr, errors := d.errors,
    included := d.included.map (fun p => (p.1, p.2.map ResSke.abstr)), dmeta := d.dmeta }

namespace DocbL
open RtbL

theorem unmarshalRes?_abstr (σ : SSchema) (r : ResSke?) :
    unmarshalRes? σ (r.map ResSke.abstr) = unmarshalRes? σ r := by
  cases r with
  | none => rfl
  | some sk => exact unmarshalResource_abstr σ sk

theorem unmarshalList_abstr (σ : SSchema) (l : List ResSke?) :
    unmarshalList σ (l.map (fun r => r.map ResSke.abstr)) = unmarshalList σ l := by
  induction l with
  | nil => rfl
  | cons x xs ih => simp only [List.map_cons, unmarshalList, unmarshalRes?_abstr, ih]

/-- `UnmarshalDocument` cannot observe the conversion. -/
theorem unmarshalDocument_abstr (σ : SSchema) (d : DocSke) :
    unmarshalDocument σ (some d.abstr) = unmarshalDocument σ (some d) := by
  have e1 : (d.abstr.included.any (fun p => !p.1)) = d.included.any (fun p => !p.1) := by
    simp [DocSke.abstr, List.any_map, Function.comp_def]
  have e2 : unmarshalList σ (d.abstr.included.map (·.2)) = unmarshalList σ (d.included.map (·.2)) := by
    have : d.abstr.included.map (·.2) = (d.included.map (·.2)).map (fun r => r.map ResSke.abstr) := by
      simp [DocSke.abstr, List.map_map, Function.comp_def]
    rw [this, unmarshalList_abstr]
  obtain ⟨data, errs, inc, dm⟩ := d
  simp only [unmarshalDocument] at e1 e2 ⊢
  rw [e1, e2]
  cases data with
  | res r => simp only [DocSke.abstr, DataSke.abstr, unmarshalRes?_abstr]
  | col l =>
    cases l with
    | none => rfl
    | some l => simp only [DocSke.abstr, DataSke.abstr, Option.map_some, unmarshalList_abstr]
  | absent => rfl
  | null => rfl
  | other => rfl

/-! ### `any` on rendered canonical values -/

theorem metaSet_snoc (cur : List (GoString × Json)) (k : GoString) (v : Json)
    (h : ∀ p ∈ cur, p.1 < k) : metaSet cur k v = cur ++ [(k, v)] := by
  induction cur with
  | nil => rfl
  | cons p rest ih =>
    obtain ⟨k', v'⟩ := p
    have hk : k' < k := h (k', v') (by simp)
    have n1 : ¬ k < k' := fun h' => List.lt_asymm hk h'
    have n2 : ¬ k = k' := fun e => by rw [e] at hk; exact List.lt_irrefl _ hk
    simp only [metaSet, n1, n2, if_false, List.cons_append]
    rw [ih (fun q hq => h q (by simp [hq]))]

theorem metaInto_asc (cur l : List (GoString × Json))
    (h : (cur ++ l).Pairwise (fun a b => a.1 < b.1)) : metaInto cur l = cur ++ l := by
  induction l generalizing cur with
  | nil => simp [metaInto]
  | cons p l ih =>
    have h1 : ∀ q ∈ cur, q.1 < p.1 := by
      intro q hq
      rw [List.pairwise_append] at h
      exact h.2.2 q hq p (by simp)
    have e : metaInto cur (p :: l) = metaInto (metaSet cur p.1 p.2) l := rfl
    rw [e, metaSet_snoc cur p.1 p.2 h1, ih]
    · simp
    · simpa using h

mutual
theorem anyOf_toC (nc : GoString → Option GoString) :
    ∀ (v : Json), metaCanon nc v = true → strsAll utf8Valid v = true → anyOf nc (toC v) = some v
  | .null, _, _ => rfl
  | .bool _, _, _ => rfl
  | .num l, h, _ => by
    simp only [metaCanon, decide_eq_true_eq] at h
    simp only [toC, anyOf, h, Option.map_some]
  | .str s, _, hu => by
    simp only [strsAll] at hu
    simp only [toC, anyOf, unq_key s hu]
  | .arr l, h, hu => by
    simp only [metaCanon] at h
    simp only [strsAll] at hu
    simp only [toC, anyOf, anyItems_toC nc l h hu, Option.map_some]
  | .obj ms, h, hu => by
    simp only [metaCanon, Bool.and_eq_true, keysAsc, decide_eq_true_eq] at h
    simp only [strsAll] at hu
    simp only [toC, anyOf, anyMembers_toC nc ms h.2 hu, Option.map_some]
    rw [metaInto_asc [] ms (by simpa using h.1)]
    rfl
theorem anyItems_toC (nc : GoString → Option GoString) :
    ∀ (l : List Json), metaCanonList nc l = true → strsAllList utf8Valid l = true →
      anyItems nc (toCItems l) = some l
  | [], _, _ => rfl
  | v :: vs, h, hu => by
    simp only [metaCanonList, Bool.and_eq_true] at h
    simp only [strsAllList, Bool.and_eq_true] at hu
    simp only [toCItems, anyItems, anyOf_toC nc v h.1 hu.1, anyItems_toC nc vs h.2 hu.2]
theorem anyMembers_toC (nc : GoString → Option GoString) :
    ∀ (ms : List (GoString × Json)), metaCanonMembers nc ms = true →
      strsAllMembers utf8Valid ms = true → anyMembers nc (toCMembers ms) = some ms
  | [], _, _ => rfl
  | (k, v) :: ms, h, hu => by
    simp only [metaCanonMembers, Bool.and_eq_true] at h
    simp only [strsAllMembers, Bool.and_eq_true] at hu
    simp only [toCMembers, anyMembers, anyOf_toC nc v h.1 hu.1.2, anyMembers_toC nc ms h.2 hu.2,
      unq_key k hu.1.1]
end

/-- a `map[string]any` field, empty so far, reads a canonical object: its members -/
theorem mergeMeta_toC (nc : GoString → Option GoString) (mm : List (GoString × Json))
    (h : metaCanon nc (.obj mm) = true) (hu : strsAll utf8Valid (.obj mm) = true) :
    mergeMeta nc [] (toC (.obj mm)) = some mm := by
  simp only [metaCanon, Bool.and_eq_true, keysAsc, decide_eq_true_eq] at h
  simp only [strsAll] at hu
  simp only [toC, mergeMeta, anyMembers_toC nc mm h.2 hu, Option.map_some]
  rw [metaInto_asc [] mm (by simpa using h.1)]
  rfl


/-! ### error objects and the `errors` slice -/

theorem kv_included : utf8Valid K.included = true := ascii_all _ (by decide)
theorem kv_jsonapi : utf8Valid K.jsonapi = true := ascii_all _ (by decide)
theorem kv_kmeta : utf8Valid K.kmeta = true := ascii_all _ (by decide)

theorem linksInto_toC (ls : List (GoString × Json)) (cur : GoMap GoString)
    (h : ∀ p ∈ ls, utf8Valid p.1 = true ∧ p.2.isStr = true ∧ strsAll utf8Valid p.2 = true) :
    linksInto cur (toCMembers ls) =
      some (ls.foldl (fun m p => GoMap.set m p.1 (strOf (some p.2))) cur) := by
  induction ls generalizing cur with
  | nil => rfl
  | cons p ls ih =>
    obtain ⟨k, v⟩ := p
    obtain ⟨hk, hv, hu⟩ := h (k, v) (by simp)
    cases v with
    | str s =>
      simp only [strsAll] at hu
      simp only [toCMembers, linksInto, toC, setStrC, unq_key k hk, unq_key s hu, List.foldl_cons,
        strOf]
      exact ih _ (fun q hq => h q (by simp [hq]))
    | _ => cases hv

/-- lookup with a default, as the accumulators read a member -/
def pick {α : Type} (o : Option Json) (f : Option Json → α) (d : α) : α :=
  match o with
  | some v => f (some v)
  | none => d

theorem pick_none {α : Type} (o : Option Json) (f : Option Json → α) : pick o f (f none) = f o := by
  cases o <;> rfl

def linksOf (o : Option Json) : GoMap GoString :=
  (membersOf o).map (fun p => (p.1, strOf (some p.2)))

def errAccOf (acc : ErrorObj) (ms : List (GoString × Json)) : ErrorObj :=
  { id := pick ((Json.obj ms).get? K.id) strOf acc.id
    code := pick ((Json.obj ms).get? K.code) strOf acc.code
    status := pick ((Json.obj ms).get? K.status) strOf acc.status
    title := pick ((Json.obj ms).get? K.title) strOf acc.title
    detail := pick ((Json.obj ms).get? K.detail) strOf acc.detail
    links := pick ((Json.obj ms).get? K.links) linksOf acc.links
    source := pick ((Json.obj ms).get? K.source) membersOf acc.source
    emeta := pick ((Json.obj ms).get? K.kmeta) membersOf acc.emeta }

theorem errAccOf_zero (ms : List (GoString × Json)) : errAccOf {} ms = Spec.errorOfJson (.obj ms) := by
  have e1 : ([] : GoString) = strOf none := rfl
  have e2 : ([] : GoMap GoString) = linksOf none := rfl
  have e3 : ([] : Meta) = membersOf none := rfl
  simp only [errAccOf]
  rw [e1, e2, e3]
  simp only [pick_none]
  rfl

theorem kv_code : utf8Valid K.code = true := ascii_all _ (by decide)
theorem kv_status : utf8Valid K.status = true := ascii_all _ (by decide)
theorem kv_title : utf8Valid K.title = true := ascii_all _ (by decide)
theorem kv_detail : utf8Valid K.detail = true := ascii_all _ (by decide)
theorem kv_source : utf8Valid K.source = true := ascii_all _ (by decide)

theorem errKeys_distinct :
    [K.id, K.code, K.status, K.title, K.detail, K.links, K.source, K.kmeta].Pairwise (· ≠ ·) := by
  decide

theorem pick_cons_eq {α : Type} (k : GoString) (v : Json) (ms : List (GoString × Json))
    (f : Option Json → α) (d : α) : pick ((Json.obj ((k, v) :: ms)).get? k) f d = f (some v) := by
  rw [get?_cons, if_pos rfl]; rfl

theorem pick_cons_ne {α : Type} (k k' : GoString) (v : Json) (ms : List (GoString × Json))
    (f : Option Json → α) (d : α) (h : ¬ k = k') :
    pick ((Json.obj ((k, v) :: ms)).get? k') f d = pick ((Json.obj ms).get? k') f d := by
  rw [get?_cons, if_neg h]

theorem pick_absent {α : Type} (k : GoString) (ms : List (GoString × Json))
    (f : Option Json → α) (d : α) (h : k ∉ ms.map (·.1)) :
    pick ((Json.obj ms).get? k) f d = d := by
  rw [get?_none_of_not_mem ms k h]; rfl

theorem errMembers_toC (D : Delegated) (ms : List (GoString × Json)) (acc : ErrorObj)
    (hnd : (ms.map (·.1)).Nodup) (hok : ∀ p ∈ ms, errMemberOk D.numCanon p = true)
    (hu : ∀ p ∈ ms, strsAll utf8Valid p.2 = true)
    (hz : (K.links ∈ ms.map (·.1) → acc.links = []) ∧ (K.source ∈ ms.map (·.1) → acc.source = []) ∧
      (K.kmeta ∈ ms.map (·.1) → acc.emeta = [])) :
    _root_.Jsonapi.errMembers D acc (toCMembers ms) = some (errAccOf acc ms) := by
  induction ms generalizing acc with
  | nil => cases acc; simp [toCMembers, _root_.Jsonapi.errMembers, errAccOf, Json.get?, pick]
  | cons p ms ih =>
    obtain ⟨k, v⟩ := p
    simp only [List.map_cons, List.nodup_cons] at hnd
    have ih' := fun acc hz => ih acc hnd.2 (fun q hq => hok q (by simp [hq]))
      (fun q hq => hu q (by simp [hq])) hz
    have hp := hok (k, v) (by simp)
    have huv := hu (k, v) (by simp)
    simp only [errMemberOk, Bool.or_eq_true, Bool.and_eq_true, decide_eq_true_eq] at hp
    have hd := errKeys_distinct
    simp only [List.pairwise_cons, List.mem_cons, List.not_mem_nil, or_false, forall_eq_or_imp,
      forall_eq, List.Pairwise.nil, and_true] at hd
    obtain ⟨⟨a1, a2, a3, a4, a5, a6, a7⟩, ⟨b2, b3, b4, b5, b6, b7⟩, ⟨c3, c4, c5, c6, c7⟩,
      ⟨d4, d5, d6, d7⟩, ⟨e5, e6, e7⟩, ⟨f6, f7⟩, g7, -⟩ := hd
    rcases hp with ((((((⟨rfl, hv⟩ | ⟨rfl, hv⟩) | ⟨rfl, hv⟩) | ⟨rfl, hv⟩) | ⟨rfl, hv⟩) | ⟨rfl, hv⟩) |
      ⟨rfl, hv⟩) | ⟨rfl, hv⟩
    · have f : fieldIdx errFields K.id = some 0 := by decide
      cases v with
      | str s =>
        simp only [strsAll] at huv
        simp only [toCMembers, _root_.Jsonapi.errMembers, unq_key K.id kv_id, f, toC, setStrC,
          unq_key s huv]
        rw [ih' { acc with id := s } ⟨fun h => hz.1 (by simp [h]), fun h => hz.2.1 (by simp [h]),
          fun h => hz.2.2 (by simp [h])⟩]
        simp only [errAccOf, pick_cons_eq, pick_cons_ne _ _ _ _ _ _ a1, pick_cons_ne _ _ _ _ _ _ a2,
          pick_cons_ne _ _ _ _ _ _ a3, pick_cons_ne _ _ _ _ _ _ a4, pick_cons_ne _ _ _ _ _ _ a5,
          pick_cons_ne _ _ _ _ _ _ a6, pick_cons_ne _ _ _ _ _ _ a7, pick_absent K.id ms _ _ hnd.1, strOf]
      | _ => cases hv
    · have f : fieldIdx errFields K.code = some 1 := by decide
      cases v with
      | str s =>
        simp only [strsAll] at huv
        simp only [toCMembers, _root_.Jsonapi.errMembers, unq_key K.code kv_code, f, toC, setStrC,
          unq_key s huv]
        rw [ih' { acc with code := s } ⟨fun h => hz.1 (by simp [h]), fun h => hz.2.1 (by simp [h]),
          fun h => hz.2.2 (by simp [h])⟩]
        simp only [errAccOf, pick_cons_eq, pick_cons_ne _ _ _ _ _ _ (Ne.symm a1), pick_cons_ne _ _ _ _ _ _ b2,
          pick_cons_ne _ _ _ _ _ _ b3, pick_cons_ne _ _ _ _ _ _ b4, pick_cons_ne _ _ _ _ _ _ b5,
          pick_cons_ne _ _ _ _ _ _ b6, pick_cons_ne _ _ _ _ _ _ b7, pick_absent K.code ms _ _ hnd.1, strOf]
      | _ => cases hv
    · have f : fieldIdx errFields K.status = some 2 := by decide
      cases v with
      | str s =>
        simp only [strsAll] at huv
        simp only [toCMembers, _root_.Jsonapi.errMembers, unq_key K.status kv_status, f, toC, setStrC,
          unq_key s huv]
        rw [ih' { acc with status := s } ⟨fun h => hz.1 (by simp [h]), fun h => hz.2.1 (by simp [h]),
          fun h => hz.2.2 (by simp [h])⟩]
        simp only [errAccOf, pick_cons_eq, pick_cons_ne _ _ _ _ _ _ (Ne.symm a2),
          pick_cons_ne _ _ _ _ _ _ (Ne.symm b2),
          pick_cons_ne _ _ _ _ _ _ c3, pick_cons_ne _ _ _ _ _ _ c4, pick_cons_ne _ _ _ _ _ _ c5,
          pick_cons_ne _ _ _ _ _ _ c6, pick_cons_ne _ _ _ _ _ _ c7, pick_absent K.status ms _ _ hnd.1, strOf]
      | _ => cases hv
    · have f : fieldIdx errFields K.title = some 3 := by decide
      cases v with
      | str s =>
        simp only [strsAll] at huv
        simp only [toCMembers, _root_.Jsonapi.errMembers, unq_key K.title kv_title, f, toC, setStrC,
          unq_key s huv]
        rw [ih' { acc with title := s } ⟨fun h => hz.1 (by simp [h]), fun h => hz.2.1 (by simp [h]),
          fun h => hz.2.2 (by simp [h])⟩]
        simp only [errAccOf, pick_cons_eq, pick_cons_ne _ _ _ _ _ _ (Ne.symm a3),
          pick_cons_ne _ _ _ _ _ _ (Ne.symm b3), pick_cons_ne _ _ _ _ _ _ (Ne.symm c3),
          pick_cons_ne _ _ _ _ _ _ d4, pick_cons_ne _ _ _ _ _ _ d5,
          pick_cons_ne _ _ _ _ _ _ d6, pick_cons_ne _ _ _ _ _ _ d7, pick_absent K.title ms _ _ hnd.1, strOf]
      | _ => cases hv
    · have f : fieldIdx errFields K.detail = some 4 := by decide
      cases v with
      | str s =>
        simp only [strsAll] at huv
        simp only [toCMembers, _root_.Jsonapi.errMembers, unq_key K.detail kv_detail, f, toC, setStrC,
          unq_key s huv]
        rw [ih' { acc with detail := s } ⟨fun h => hz.1 (by simp [h]), fun h => hz.2.1 (by simp [h]),
          fun h => hz.2.2 (by simp [h])⟩]
        simp only [errAccOf, pick_cons_eq, pick_cons_ne _ _ _ _ _ _ (Ne.symm a4),
          pick_cons_ne _ _ _ _ _ _ (Ne.symm b4), pick_cons_ne _ _ _ _ _ _ (Ne.symm c4),
          pick_cons_ne _ _ _ _ _ _ (Ne.symm d4), pick_cons_ne _ _ _ _ _ _ e5,
          pick_cons_ne _ _ _ _ _ _ e6, pick_cons_ne _ _ _ _ _ _ e7, pick_absent K.detail ms _ _ hnd.1, strOf]
      | _ => cases hv
    · have f : fieldIdx errFields K.links = some 5 := by decide
      cases v with
      | obj ls =>
        simp only [errLinksOk, Bool.and_eq_true, decide_eq_true_eq, List.all_eq_true] at hv
        simp only [strsAll] at huv
        have hul := (strsAllMembers_iff _ _).1 huv
        have hzl : acc.links = [] := hz.1 (by simp)
        have hl := linksInto_toC ls [] (fun q hq => ⟨(hul q hq).1, hv.2 q hq, (hul q hq).2⟩)
        rw [foldl_set_nodup (fun j => strOf (some j)) ls [] hv.1 (fun k hk => by cases hk), List.nil_append] at hl
        simp only [toCMembers, _root_.Jsonapi.errMembers, unq_key K.links kv_links, f, toC, hzl, hl]
        rw [ih' { acc with links := ls.map (fun p => (p.1, strOf (some p.2))) } ⟨fun h => absurd h hnd.1, fun h => hz.2.1 (by simp [h]),
          fun h => hz.2.2 (by simp [h])⟩]
        simp only [errAccOf, pick_cons_eq, pick_cons_ne _ _ _ _ _ _ (Ne.symm a5),
          pick_cons_ne _ _ _ _ _ _ (Ne.symm b5), pick_cons_ne _ _ _ _ _ _ (Ne.symm c5),
          pick_cons_ne _ _ _ _ _ _ (Ne.symm d5), pick_cons_ne _ _ _ _ _ _ (Ne.symm e5),
          pick_cons_ne _ _ _ _ _ _ f6, pick_cons_ne _ _ _ _ _ _ f7, pick_absent K.links ms _ _ hnd.1,
          linksOf, membersOf]
      | _ => cases hv
    · have f : fieldIdx errFields K.source = some 6 := by decide
      cases v with
      | obj mm =>
        simp only [metaObjOk] at hv
        have hzl : acc.source = [] := hz.2.1 (by simp)
        simp only [toCMembers, _root_.Jsonapi.errMembers, unq_key K.source kv_source, f, hzl,
          mergeMeta_toC D.numCanon mm hv huv]
        rw [ih' { acc with source := mm } ⟨fun h => hz.1 (by simp [h]), fun h => absurd h hnd.1,
          fun h => hz.2.2 (by simp [h])⟩]
        simp only [errAccOf, pick_cons_eq, pick_cons_ne _ _ _ _ _ _ (Ne.symm a6),
          pick_cons_ne _ _ _ _ _ _ (Ne.symm b6), pick_cons_ne _ _ _ _ _ _ (Ne.symm c6),
          pick_cons_ne _ _ _ _ _ _ (Ne.symm d6), pick_cons_ne _ _ _ _ _ _ (Ne.symm e6),
          pick_cons_ne _ _ _ _ _ _ (Ne.symm f6), pick_cons_ne _ _ _ _ _ _ g7,
          pick_absent K.source ms _ _ hnd.1, membersOf]
      | _ => cases hv
    · have f : fieldIdx errFields K.kmeta = some 7 := by decide
      cases v with
      | obj mm =>
        simp only [metaObjOk] at hv
        have hzl : acc.emeta = [] := hz.2.2 (by simp)
        simp only [toCMembers, _root_.Jsonapi.errMembers, unq_key K.kmeta kv_kmeta, f, hzl,
          mergeMeta_toC D.numCanon mm hv huv]
        rw [ih' { acc with emeta := mm } ⟨fun h => hz.1 (by simp [h]), fun h => hz.2.1 (by simp [h]),
          fun h => absurd h hnd.1⟩]
        simp only [errAccOf, pick_cons_eq, pick_cons_ne _ _ _ _ _ _ (Ne.symm a7),
          pick_cons_ne _ _ _ _ _ _ (Ne.symm b7), pick_cons_ne _ _ _ _ _ _ (Ne.symm c7),
          pick_cons_ne _ _ _ _ _ _ (Ne.symm d7), pick_cons_ne _ _ _ _ _ _ (Ne.symm e7),
          pick_cons_ne _ _ _ _ _ _ (Ne.symm f7), pick_cons_ne _ _ _ _ _ _ (Ne.symm g7),
          pick_absent K.kmeta ms _ _ hnd.1, membersOf]
      | _ => cases hv

/-- an element of `errors`, starting from the zero `Error`, on a rendered error object -/
theorem decodeErr_toC (D : Delegated) (e : Json) (hs : errObjShape D.numCanon e = true)
    (hu : strsAll utf8Valid e = true) :
    decodeErrInto D {} (toC e) = some (Spec.errorOfJson e) := by
  cases e with
  | obj ms =>
    simp only [errObjShape, Bool.and_eq_true, decide_eq_true_eq, List.all_eq_true] at hs
    simp only [strsAll] at hu
    have hu' := (strsAllMembers_iff _ _).1 hu
    simp only [toC, decodeErrInto]
    rw [errMembers_toC D ms {} hs.1 hs.2 (fun p hp => (hu' p hp).2)
      ⟨fun _ => rfl, fun _ => rfl, fun _ => rfl⟩, errAccOf_zero]
  | _ => cases hs


theorem growCap_gt (c : Nat) : c < growCap c := by
  unfold growCap
  split
  · omega
  · split
    · omega
    · split <;> omega

theorem getD_done {α : Type} (done : List α) (k : Nat) (x : α) :
    (done ++ List.replicate k x).getD done.length x = x := by
  induction done with
  | nil => cases k <;> rfl
  | cons a as ih => simpa using ih

theorem set_done {α : Type} (done : List α) (k : Nat) (x y : α) :
    (done ++ List.replicate (k + 1) x).set done.length y = (done ++ [y]) ++ List.replicate k x := by
  induction done with
  | nil => rfl
  | cons a as ih => simpa using ih

theorem errItems_cons (D : Delegated) (done : List ErrorObj) (k : Nat) (v : CJson) (rest : List CItem)
    (e' : ErrorObj) (he : decodeErrInto D {} v = some e') :
    ∃ k2, errItems D { buf := done ++ List.replicate k {}, len := done.length } done.length
        (([], v, []) :: rest) =
      errItems D { buf := (done ++ [e']) ++ List.replicate k2 {}, len := (done ++ [e']).length }
        (done ++ [e']).length rest := by
  by_cases hk : k = 0
  · subst hk
    have hg := growCap_gt done.length
    obtain ⟨k1, hk1⟩ : ∃ k1, growCap done.length - done.length = k1 + 1 := ⟨growCap done.length - done.length - 1, by omega⟩
    refine ⟨k1, ?_⟩
    simp only [errItems, List.replicate_zero, List.append_nil, Nat.le_refl, if_true, List.take_length, hk1,
      getD_done, he, set_done, List.length_append, List.length_singleton]
  · obtain ⟨k1, rfl⟩ : ∃ k1, k = k1 + 1 := ⟨k - 1, by omega⟩
    refine ⟨k1, ?_⟩
    have hn : ¬ (done.length + (k1 + 1) ≤ done.length) := by omega
    simp only [errItems, List.length_append, List.length_replicate, hn, if_false, Nat.le_refl, if_true,
      getD_done, he, set_done, List.length_singleton]

theorem errItems_toC (D : Delegated) (l : List Json) (done : List ErrorObj) (k : Nat)
    (h : ∀ e ∈ l, decodeErrInto D {} (toC e) = some (Spec.errorOfJson e)) :
    ∃ b', errItems D { buf := done ++ List.replicate k {}, len := done.length } done.length (toCItems l) =
        some (b', done.length + l.length) ∧
      b'.buf.take (done.length + l.length) = done ++ l.map Spec.errorOfJson := by
  induction l generalizing done k with
  | nil =>
    refine ⟨_, rfl, ?_⟩
    simp
  | cons e l ih =>
    obtain ⟨k2, h2⟩ := errItems_cons D done k (toC e) (toCItems l) _ (h e (by simp))
    obtain ⟨b', h3, h4⟩ := ih (done ++ [Spec.errorOfJson e]) k2 (fun x hx => h x (by simp [hx]))
    have e1 : done.length + (e :: l).length = (done ++ [Spec.errorOfJson e]).length + l.length := by
      simp only [List.length_append, List.length_cons, List.length_nil]; omega
    refine ⟨b', ?_, ?_⟩
    · simp only [toCItems]
      rw [h2, h3, e1]
    · rw [e1, h4]
      simp

/-- the `errors` field, empty so far, reads a rendered array of error objects -/
theorem decodeErrors_toC (D : Delegated) (l : List Json)
    (h : ∀ e ∈ l, decodeErrInto D {} (toC e) = some (Spec.errorOfJson e)) :
    ∃ b, decodeErrors D {} (toC (.arr l)) = some b ∧ b.buf.take b.len = l.map Spec.errorOfJson := by
  obtain ⟨b', h1, h2⟩ := errItems_toC D l [] 0 h
  simp only [List.replicate_zero, List.append_nil, List.length_nil, Nat.zero_add, List.nil_append] at h1 h2
  have e0 : ({ buf := [], len := 0 } : ErrBuf) = {} := rfl
  rw [e0] at h1
  simp only [toC, decodeErrors, h1]
  by_cases hl : l.length = 0
  · refine ⟨{}, by simp [hl], ?_⟩
    have : l = [] := List.eq_nil_of_length_eq_zero hl
    subst this; rfl
  · exact ⟨{ b' with len := l.length }, by simp [hl], h2⟩


/-! ### the payload decoder on the rendered members -/

theorem toCItems_map {β : Type} (f : CJson → β) (l : List Json) :
    (toCItems l).map (fun p => f p.2.1) = l.map (fun j => f (toC j)) := by
  induction l with
  | nil => rfl
  | cons v vs ih => simp only [toCItems, List.map_cons, ih]

def arrOf : Json → List Json
  | .arr l => l
  | _ => []

/-- the accumulator after the members `ms`, read off the tree by member lookup -/
def accOf (acc : DocAcc) (ms : List (GoString × Json)) : DocAcc :=
  { data := (match (Json.obj ms).get? K.data with
      | some v => some (toC v)
      | none => acc.data)
    errs := acc.errs
    inc := (match (Json.obj ms).get? K.included with
      | some v => (arrOf v).map toC
      | none => acc.inc)
    dmeta := (match (Json.obj ms).get? K.kmeta with
      | some v => membersOf (some v)
      | none => acc.dmeta) }


/-- the error objects of the tree, or the ones read so far -/
def errsOfTree (d : List ErrorObj) (ms : List (GoString × Json)) : List ErrorObj :=
  match (Json.obj ms).get? K.errors with
  | some v => (arrOf v).map Spec.errorOfJson
  | none => d

theorem kv_errors : utf8Valid K.errors = true := ascii_all _ (by decide)

theorem docMembers_toC (D : Delegated) (ms : List (GoString × Json)) (acc : DocAcc)
    (hnd : (ms.map (·.1)).Nodup) (hok : ∀ p ∈ ms, docMemberOk D.numCanon p = true)
    (hu : ∀ p ∈ ms, strsAll utf8Valid p.2 = true)
    (hmz : K.kmeta ∈ ms.map (·.1) → acc.dmeta = [])
    (hez : K.errors ∈ ms.map (·.1) → acc.errs = {}) :
    ∃ eb, docMembers D acc (toCMembers ms) = some { accOf acc ms with errs := eb } ∧
      eb.buf.take eb.len = errsOfTree (acc.errs.buf.take acc.errs.len) ms := by
  induction ms generalizing acc with
  | nil => exact ⟨acc.errs, by cases acc; simp [toCMembers, docMembers, accOf, Json.get?], rfl⟩
  | cons p ms ih =>
    obtain ⟨k, v⟩ := p
    simp only [List.map_cons, List.nodup_cons] at hnd
    have ih' := fun acc hz hz2 => ih acc hnd.2 (fun q hq => hok q (by simp [hq]))
      (fun q hq => hu q (by simp [hq])) hz hz2
    have hp := hok (k, v) (by simp)
    have huv := hu (k, v) (by simp)
    simp only [docMemberOk, Bool.or_eq_true, Bool.and_eq_true, decide_eq_true_eq] at hp
    rcases hp with ((((⟨rfl, hv⟩ | ⟨rfl, hv⟩) | rfl) | rfl) | ⟨rfl, hv⟩) | ⟨rfl, hv⟩
    · have f : fieldIdx docFields K.data = some 0 := by decide
      have n1 : ¬ K.data = K.included := by decide
      have n2 : ¬ K.data = K.kmeta := by decide
      have n3 : ¬ K.data = K.errors := by decide
      obtain ⟨eb, h1, h2⟩ := ih' { acc with data := some (toC v) } (fun hmem => hmz (by simp [hmem]))
        (fun hmem => hez (by simp [hmem]))
      refine ⟨eb, ?_, ?_⟩
      · simp only [toCMembers, docMembers, unq_key K.data kv_data, f]
        rw [h1]
        simp only [accOf, get?_cons, if_true, n1, n2, if_false, get?_none_of_not_mem ms K.data hnd.1]
      · rw [h2]; simp only [errsOfTree, get?_cons, n3, if_false]
    · have f : fieldIdx docFields K.included = some 2 := by decide
      have n1 : ¬ K.included = K.data := by decide
      have n2 : ¬ K.included = K.kmeta := by decide
      have n3 : ¬ K.included = K.errors := by decide
      cases v with
      | arr l =>
        obtain ⟨eb, h1, h2⟩ := ih' { acc with inc := (toCItems l).map (fun p => p.2.1) }
          (fun hmem => hmz (by simp [hmem])) (fun hmem => hez (by simp [hmem]))
        refine ⟨eb, ?_, ?_⟩
        · simp only [toCMembers, docMembers, unq_key K.included kv_included, f, toC]
          rw [h1]
          simp only [accOf, get?_cons, if_true, n1, n2, if_false,
            get?_none_of_not_mem ms K.included hnd.1, arrOf, toCItems_map (fun c => c) l]
        · rw [h2]; simp only [errsOfTree, get?_cons, n3, if_false]
      | _ => cases hv
    · have f : fieldIdx docFields K.links = none := by decide
      have n1 : ¬ K.links = K.data := by decide
      have n2 : ¬ K.links = K.included := by decide
      have n3 : ¬ K.links = K.kmeta := by decide
      have n4 : ¬ K.links = K.errors := by decide
      obtain ⟨eb, h1, h2⟩ := ih' acc (fun hmem => hmz (by simp [hmem]))
        (fun hmem => hez (by simp [hmem]))
      refine ⟨eb, ?_, ?_⟩
      · simp only [toCMembers, docMembers, unq_key K.links kv_links, f]
        rw [h1]
        simp only [accOf, get?_cons, n1, n2, n3, if_false]
      · rw [h2]; simp only [errsOfTree, get?_cons, n4, if_false]
    · have f : fieldIdx docFields K.jsonapi = none := by decide
      have n1 : ¬ K.jsonapi = K.data := by decide
      have n2 : ¬ K.jsonapi = K.included := by decide
      have n3 : ¬ K.jsonapi = K.kmeta := by decide
      have n4 : ¬ K.jsonapi = K.errors := by decide
      obtain ⟨eb, h1, h2⟩ := ih' acc (fun hmem => hmz (by simp [hmem]))
        (fun hmem => hez (by simp [hmem]))
      refine ⟨eb, ?_, ?_⟩
      · simp only [toCMembers, docMembers, unq_key K.jsonapi kv_jsonapi, f]
        rw [h1]
        simp only [accOf, get?_cons, n1, n2, n3, if_false]
      · rw [h2]; simp only [errsOfTree, get?_cons, n4, if_false]
    · have f : fieldIdx docFields K.kmeta = some 3 := by decide
      have n1 : ¬ K.kmeta = K.data := by decide
      have n2 : ¬ K.kmeta = K.included := by decide
      have n3 : ¬ K.kmeta = K.errors := by decide
      cases v with
      | obj mm =>
        simp only [metaObjOk] at hv
        have hz : acc.dmeta = [] := hmz (by simp)
        obtain ⟨eb, h1, h2⟩ := ih' { acc with dmeta := mm } (fun hmem => absurd hmem hnd.1)
          (fun hmem => hez (by simp [hmem]))
        refine ⟨eb, ?_, ?_⟩
        · simp only [toCMembers, docMembers, unq_key K.kmeta kv_kmeta, f, hz,
            mergeMeta_toC D.numCanon mm hv huv]
          rw [h1]
          simp only [accOf, get?_cons, if_true, n1, n2, if_false,
            get?_none_of_not_mem ms K.kmeta hnd.1, membersOf]
        · rw [h2]; simp only [errsOfTree, get?_cons, n3, if_false]
      | _ => cases hv
    · have f : fieldIdx docFields K.errors = some 1 := by decide
      have n1 : ¬ K.errors = K.data := by decide
      have n2 : ¬ K.errors = K.included := by decide
      have n3 : ¬ K.errors = K.kmeta := by decide
      cases v with
      | arr l =>
        simp only [errsShape, List.all_eq_true] at hv
        simp only [strsAll] at huv
        have hul := (strsAllList_iff _ _).1 huv
        have hz : acc.errs = {} := hez (by simp)
        obtain ⟨b, hb1, hb2⟩ := decodeErrors_toC D l
          (fun e he => decodeErr_toC D e (hv e he) (hul e he))
        obtain ⟨eb, h1, h2⟩ := ih' { acc with errs := b } (fun hmem => hmz (by simp [hmem]))
          (fun hmem => absurd hmem hnd.1)
        refine ⟨eb, ?_, ?_⟩
        · simp only [toCMembers, docMembers, unq_key K.errors kv_errors, f, hz, hb1]
          rw [h1]
          simp only [accOf, get?_cons, n1, n2, n3, if_false]
        · rw [h2]
          simp only [errsOfTree, get?_cons, if_true, get?_none_of_not_mem ms K.errors hnd.1, hb2, arrOf]
      | _ => cases hv

theorem docMemberOk_key (nc : GoString → Option GoString) (p : GoString × Json)
    (h : docMemberOk nc p = true) :
    p.1 = K.data ∨ p.1 = K.included ∨ p.1 = K.links ∨ p.1 = K.jsonapi ∨ p.1 = K.kmeta ∨
      p.1 = K.errors := by
  simp only [docMemberOk, Bool.or_eq_true, Bool.and_eq_true, decide_eq_true_eq] at h
  rcases h with ((((⟨e, _⟩ | ⟨e, _⟩) | e) | e) | ⟨e, _⟩) | ⟨e, _⟩ <;> simp [e]

/-! ### one resource of `data` / `included` -/

theorem resItem_toC (D : Delegated) (TimeOk : Time → Prop) (hD : DelegatedOk D TimeOk) (j : Json)
    (hs : ResTreeShape j = true) (hn : j.numsOk = true) (hu : strsAll utf8Valid j = true) :
    (decodeRes D (toC j)).map ResSke.abstr = Spec.resSkeOf (codecsOf D TimeOk hD) j := by
  obtain ⟨sk, h1, h2⟩ := decodeRes_toC D TimeOk hD j hs hn hu
  rw [h1, Option.map_some, h2]
  cases j with
  | obj ms => rfl
  | _ => cases hs

theorem identMembers_some (ms : List (GoString × Json)) (acc : GoString × GoString)
    (hok : ∀ p ∈ ms, topMemberOk p = true) :
    (identMembers acc (toCMembers ms)).isSome = true := by
  induction ms generalizing acc with
  | nil => rfl
  | cons p ms ih =>
    obtain ⟨k, v⟩ := p
    have ih' := fun acc => ih acc (fun q hq => hok q (by simp [hq]))
    have hp := hok (k, v) (by simp)
    simp only [topMemberOk, Bool.or_eq_true, Bool.and_eq_true, decide_eq_true_eq] at hp
    rcases hp with (((⟨rfl, hv⟩ | ⟨rfl, hv⟩) | rfl) | ⟨rfl, hv⟩) | ⟨rfl, hv⟩
    · have f : fieldIdx identFields K.id = some 0 := by decide
      cases v with
      | str s => simp only [toCMembers, identMembers, unq_key K.id kv_id, f, toC, setStrC, ih']
      | _ => cases hv
    · have f : fieldIdx identFields K.type = some 1 := by decide
      cases v with
      | str s => simp only [toCMembers, identMembers, unq_key K.type kv_type, f, toC, setStrC, ih']
      | _ => cases hv
    · have f : fieldIdx identFields K.links = none := by decide
      simp only [toCMembers, identMembers, unq_key K.links kv_links, f, ih']
    · have f : fieldIdx identFields K.attributes = none := by decide
      simp only [toCMembers, identMembers, unq_key K.attributes kv_attributes, f, ih']
    · have f : fieldIdx identFields K.relationships = none := by decide
      simp only [toCMembers, identMembers, unq_key K.relationships kv_relationships, f, ih']

theorem incItem_toC (D : Delegated) (TimeOk : Time → Prop) (hD : DelegatedOk D TimeOk) (j : Json)
    (hs : incItemShape j = true) (hn : j.numsOk = true) (hu : strsAll utf8Valid j = true) :
    ((decodeIdent (toC j)).isSome, (decodeRes D (toC j)).map ResSke.abstr) =
      (j.isObj && (Spec.identOf j).isSome, Spec.resSkeOf (codecsOf D TimeOk hD) j) := by
  simp only [incItemShape, Bool.and_eq_true] at hs
  rw [resItem_toC D TimeOk hD j hs.1 hn hu, hs.2]
  cases j with
  | obj ms =>
    have h := hs.1
    rw [shape_unfold] at h
    simp only [Bool.and_eq_true, decide_eq_true_eq, List.all_eq_true] at h
    simp only [toC, decodeIdent, identMembers_some ms ([], []) h.2, Json.isObj, Bool.and_self]
  | _ => exact absurd hs.1 (by simp [ResTreeShape])

/-! ### the whole payload -/

/-- The payload decoder on the concrete syntax of a rendered document tree. -/
theorem decodeDoc_toC (D : Delegated) (TimeOk : Time → Prop) (hD : DelegatedOk D TimeOk) (t : Json)
    (hs : DocTreeShape D.numCanon t = true) (hn : t.numsOk = true)
    (hu : strsAll utf8Valid t = true) :
    ∃ d, decodeDoc D (toC t) = some d ∧
      d.abstr = Spec.docSkeletonOf (codecsOf D TimeOk hD) t := by
  cases t with
  | obj ms =>
    simp only [DocTreeShape, Bool.and_eq_true, decide_eq_true_eq, List.all_eq_true] at hs
    obtain ⟨hnd, hok⟩ := hs
    simp only [strsAll] at hu
    have hu' := (strsAllMembers_iff _ _).1 hu
    simp only [Json.numsOk] at hn
    have hn' := (numsOkMembers_iff _).1 hn
    obtain ⟨eb, h1, h1e⟩ := docMembers_toC D ms {} hnd hok (fun p hp => (hu' p hp).2)
      (fun _ => rfl) (fun _ => rfl)
    refine ⟨docSkeOf D { accOf {} ms with errs := eb },
      by simp only [toC, decodeDoc, h1, Option.map_some], ?_⟩
    have herr : eb.buf.take eb.len =
        (Spec.docSkeletonOf (codecsOf D TimeOk hD) (.obj ms)).errors := by
      rw [h1e]
      simp only [Spec.docSkeletonOf, errsOfTree]
      cases hg : (Json.obj ms).get? K.errors with
      | none => rfl
      | some v =>
        have hk := hok _ (mem_of_get? hg)
        have n1 : ¬ K.errors = K.data := by decide
        have n2 : ¬ K.errors = K.included := by decide
        have n3 : ¬ K.errors = K.links := by decide
        have n4 : ¬ K.errors = K.jsonapi := by decide
        have n5 : ¬ K.errors = K.kmeta := by decide
        simp only [docMemberOk, n1, n2, n3, n4, n5, decide_false, Bool.false_and, Bool.or_false,
          Bool.false_or, Bool.and_eq_true, decide_eq_true_eq, true_and] at hk
        cases v with
        | arr l => rfl
        | _ => cases hk
    have hdata : (dataSkeOf D (accOf {} ms).data).abstr =
        (Spec.docSkeletonOf (codecsOf D TimeOk hD) (.obj ms)).data := by
      simp only [Spec.docSkeletonOf]
      cases hg : (Json.obj ms).get? K.data with
      | none => simp [accOf, hg, dataSkeOf, DataSke.abstr]
      | some dj =>
        have hm := mem_of_get? hg
        have hk := hok _ hm
        have n1 : ¬ K.data = K.included := by decide
        have n2 : ¬ K.data = K.links := by decide
        have n3 : ¬ K.data = K.jsonapi := by decide
        have n4 : ¬ K.data = K.kmeta := by decide
        have n5 : ¬ K.data = K.errors := by decide
        simp only [docMemberOk, n1, n2, n3, n4, n5, decide_false, Bool.false_and, Bool.or_false,
          Bool.and_eq_true, decide_eq_true_eq, true_and] at hk
        have hud := (hu' _ hm).2
        have hnd' := hn' _ hm
        simp only [accOf, hg]
        cases dj with
        | null => rfl
        | obj ms' =>
          simp only [docDataShape] at hk
          simp only [toC, dataSkeOf, DataSke.abstr, Spec.dataSkeOf]
          rw [← resItem_toC D TimeOk hD (.obj ms') hk hnd' hud]
          rfl
        | arr l =>
          simp only [docDataShape, List.all_eq_true] at hk
          simp only [strsAll] at hud
          have hul := (strsAllList_iff _ _).1 hud
          simp only [Json.numsOk] at hnd'
          have hnl := (numsOkList_iff _).1 hnd'
          simp only [toC, dataSkeOf, DataSke.abstr, Spec.dataSkeOf, toCItems_map (decodeRes D) l,
            Option.map_some, List.map_map]
          congr 2
          apply List.map_congr_left
          intro j hj
          exact resItem_toC D TimeOk hD j (hk j hj) (hnl j hj) (hul j hj)
        | bool b => cases hk
        | num s => cases hk
        | str s => cases hk
    have hinc : ((accOf {} ms).inc.map (fun v => ((decodeIdent v).isSome, decodeRes D v))).map
          (fun p => (p.1, p.2.map ResSke.abstr)) =
        (Spec.docSkeletonOf (codecsOf D TimeOk hD) (.obj ms)).included := by
      simp only [Spec.docSkeletonOf]
      cases hg : (Json.obj ms).get? K.included with
      | none => simp [accOf, hg]
      | some v =>
        have hm := mem_of_get? hg
        have hk := hok _ hm
        have n1 : ¬ K.included = K.data := by decide
        have n2 : ¬ K.included = K.links := by decide
        have n3 : ¬ K.included = K.jsonapi := by decide
        have n4 : ¬ K.included = K.kmeta := by decide
        have n5 : ¬ K.included = K.errors := by decide
        simp only [docMemberOk, n1, n2, n3, n4, n5, decide_false, Bool.false_and, Bool.or_false,
          Bool.false_or, Bool.and_eq_true, decide_eq_true_eq, true_and] at hk
        have hud := (hu' _ hm).2
        have hnd' := hn' _ hm
        cases v with
        | arr l =>
          simp only [incShape, List.all_eq_true] at hk
          simp only [strsAll] at hud
          have hul := (strsAllList_iff _ _).1 hud
          simp only [Json.numsOk] at hnd'
          have hnl := (numsOkList_iff _).1 hnd'
          simp only [accOf, hg, arrOf, List.map_map]
          apply List.map_congr_left
          intro j hj
          exact incItem_toC D TimeOk hD j (hk j hj) (hnl j hj) (hul j hj)
        | _ => cases hk
    have ext : ∀ (a b : DocSke), a.data = b.data → a.errors = b.errors →
        a.included = b.included → a.dmeta = b.dmeta → a = b := by
      intro a b h1 h2 h3 h4
      cases a; cases b
      simp only at h1 h2 h3 h4
      subst h1 h2 h3 h4
      rfl
    apply ext
    · exact hdata
    · exact herr
    · exact hinc
    · cases hg : (Json.obj ms).get? K.kmeta <;>
        simp [DocSke.abstr, docSkeOf, accOf, Spec.docSkeletonOf, hg, membersOf]
  | _ => cases hs

end DocbL

/-! ### every marshaled data document has the shape -/

/-- every string of an error object is valid UTF-8 -/
def ErrorObj.utf8Ok (e : ErrorObj) : Bool :=
  utf8Valid e.id && utf8Valid e.code && utf8Valid e.status && utf8Valid e.title &&
  utf8Valid e.detail && e.links.all (fun p => utf8Valid p.1 && utf8Valid p.2) &&
  strsAll utf8Valid (.obj e.source) && strsAll utf8Valid (.obj e.emeta)

/-- `source` and `meta` of an error object stay below encoding/json's nesting limit -/
def ErrorObj.depthOk (e : ErrorObj) : Bool :=
  decide (depth (.obj e.source) + 3 < maxDepth) && decide (depth (.obj e.emeta) + 3 < maxDepth)

open MarshalL in
/-- The `validUtf8` hypothesis for a document, decidable: every resource (primary and included)
with the document's path prefix, the identifier(s) of an identifier document, and every string
of the `links` member (keys, hrefs, the meta of link objects, the self URL). -/
def Document.utf8Ok (doc : Document) (selfHref : GoString) : Bool :=
  (docResources doc).all (fun r => r.utf8Ok doc.prePath) &&
  (match doc.data with
    | .ident i t => utf8Valid i && utf8Valid t
    | .idents _ l => l.all (fun p => utf8Valid p.1 && utf8Valid p.2)
    | _ => true) &&
  strsAll utf8Valid (.obj (docLinks doc selfHref)) &&
  strsAll utf8Valid (.obj doc.dmeta) &&
  doc.errors.all ErrorObj.utf8Ok

open MarshalL in
/-- nesting: the `links` member, the top-level meta and every error object stay below
encoding/json's limit of 10000 -/
def Document.depthOk (doc : Document) (selfHref : GoString) : Bool :=
  decide (depth (.obj (docLinks doc selfHref)) < maxDepth) &&
  decide (depth (.obj doc.dmeta) < maxDepth) &&
  doc.errors.all ErrorObj.depthOk

/-- the top-level meta, and the `source` and `meta` of every error object, are canonical
(`metaCanon`): object keys strictly ascending, numbers fixed points of `nc` -/
def Document.metaCanon (nc : GoString → Option GoString) (doc : Document) : Bool :=
  Jsonapi.metaCanon nc (.obj doc.dmeta) &&
  doc.errors.all (fun e => Jsonapi.metaCanon nc (.obj e.source) && Jsonapi.metaCanon nc (.obj e.emeta))

/-- the `links` map of every error object has distinct keys (it is a Go map) -/
def Document.errLinksOk (doc : Document) : Bool :=
  doc.errors.all (fun e => decide ((e.links.map (·.1)).Nodup))

namespace DocbL
open RtbL MarshalL

theorem resourceObject_depth5 (r : ResView) (prepath : GoString)
    (fields : List GoString) (relData : GoMap (List GoString)) :
    depth (Spec.resourceObject r prepath fields relData) ≤ 5 := by
  rw [resourceObject_eq]
  simp only [depth]
  have : depthMembers (sortMembers (topMembers r prepath fields relData [])) ≤ 4 := by
    rw [depthMembers_le]
    intro p hp
    have hp := (sortMembers_perm _).mem_iff.1 hp
    simp only [topMembers, List.isEmpty_nil, if_true, List.append_nil, List.mem_append, List.mem_cons,
      List.not_mem_nil, or_false] at hp
    rcases hp with ((rfl | rfl | rfl) | hp) | hp
    · simp [depth]
    · simp [depth]
    · simp [depth, depthMembers]
    · split at hp
      · cases hp
      · simp only [List.mem_cons, List.not_mem_nil, or_false] at hp
        subst hp
        simp only [depth]
        have : depthMembers (sortMembers (attrMembers r fields)) ≤ 1 := by
          rw [depthMembers_le]
          intro q hq
          have hq := (sortMembers_perm _).mem_iff.1 hq
          obtain ⟨a, -, -, -, hj⟩ := RtL.mem_attrMembers (k := q.1) (j := q.2) hq
          rw [hj]; exact encodeAttr_depth _
        omega
    · split at hp
      · cases hp
      · simp only [List.mem_cons, List.not_mem_nil, or_false] at hp
        subst hp
        simp only [depth]
        have : depthMembers (sortMembers (MarshalL.relMembers r prepath fields (wantOf r relData) r.rels)) ≤ 3 := by
          rw [depthMembers_le]
          intro q hq
          have hq := (sortMembers_perm _).mem_iff.1 hq
          obtain ⟨rel, -, -, -, hj⟩ := RtL.mem_relMembers (k := q.1) (j := q.2) hq
          rw [hj]; exact relObject_depth ..
        omega
  omega

/-- what is asked of one resource / identifier object of `data` and `included` -/
def ItemOk (U : Prop) (j : Json) : Prop :=
  ResTreeShape j = true ∧ (Spec.identOf j).isSome = true ∧ depth j ≤ 5 ∧
    (U → strsAll utf8Valid j = true)

theorem resObj_item (doc : Document) (selfHref : GoString) (r : ResView)
    (hr : r ∈ docResources doc) (hkw : r.keyedWf) (f : List GoString) :
    ItemOk (doc.utf8Ok selfHref = true) (Spec.resourceObject r doc.prePath f doc.relData) := by
  refine ⟨resourceObject_shape hkw _ _ _, ?_, resourceObject_depth5 .., ?_⟩
  · have h1 := resObj_get_id r doc.prePath f doc.relData []
    have h2 := resObj_get_type r doc.prePath f doc.relData []
    rw [resourceObject_eq] at h1 h2 ⊢
    simp only [Spec.identOf, h1, h2, Option.isSome_some]
  · intro hu
    simp only [Document.utf8Ok, Bool.and_eq_true, List.all_eq_true] at hu
    exact resourceObject_strs r _ _ _ (hu.1.1.1.1 r hr)

theorem ident_item (U : Prop) (i t : GoString) (h : U → utf8Valid i = true ∧ utf8Valid t = true) :
    ItemOk U (identifierJson i t) := by
  refine ⟨?_, ?_, ?_, fun hu => identifierJson_strs i t (h hu).1 (h hu).2⟩
  · unfold identifierJson
    rw [shape_unfold]
    have n : ¬ K.id = K.type := by decide
    simp [topMemberOk, Json.isStr, n]
  · have n : ¬ K.id = K.type := by decide
    simp [identifierJson, Spec.identOf, Json.get?, n]
  · simp [identifierJson, depth, depthMembers]

theorem docDataShape_of (j : Json) (h : ResTreeShape j = true) : docDataShape j = true := by
  cases j with
  | obj ms => exact h
  | _ => cases h

/-- the data member of a document without errors -/
theorem dataMember_ok (doc : Document) (hkw : ∀ r ∈ docResources doc, r.keyedWf)
    (he : doc.errors = []) (fields : GoMap (List GoString)) (selfHref : GoString) (dj : Json)
    (h : Spec.dataMember doc fields = some dj) :
    dj = .null ∨ ItemOk (doc.utf8Ok selfHref = true) dj ∨
      ∃ l, dj = .arr l ∧ ∀ j ∈ l, ItemOk (doc.utf8Ok selfHref = true) j := by
  unfold Spec.dataMember at h
  split at h
  · rw [he] at h; simp at h; exact .inl h.symm
  · rename_i r hd
    cases h
    exact .inr (.inl (resObj_item doc selfHref r (by simp [docResources, docPrimary, hd]) (hkw r
      (by simp [docResources, docPrimary, hd])) _))
  · rename_i tn ms hd
    cases h
    refine .inr (.inr ⟨_, rfl, ?_⟩)
    intro j hj
    obtain ⟨r, hr, rfl⟩ := List.mem_map.1 hj
    have hm : r ∈ docResources doc := by simp [docResources, docPrimary, hd, hr]
    exact resObj_item doc selfHref r hm (hkw r hm) _
  · rename_i i t hd
    cases h
    refine .inr (.inl (ident_item _ i t ?_))
    intro hu
    simp only [Document.utf8Ok, hd, Bool.and_eq_true] at hu
    exact hu.1.1.1.2
  · rename_i b l hd
    cases h
    refine .inr (.inr ⟨_, rfl, ?_⟩)
    intro j hj
    obtain ⟨p, hp, rfl⟩ := List.mem_map.1 hj
    refine ident_item _ p.1 p.2 ?_
    intro hu
    simp only [Document.utf8Ok, hd, Bool.and_eq_true, List.all_eq_true] at hu
    exact hu.1.1.1.2 p hp
  · cases h

/-- the members of the body of a document without errors -/
theorem docBody_ok (doc : Document) (hkw : ∀ r ∈ docResources doc, r.keyedWf)
    (he : doc.errors = []) (fields : GoMap (List GoString)) (selfHref : GoString)
    (p : GoString × Json) (hp : p ∈ docBody doc fields) :
    (p.1 = K.data ∧ (p.2 = .null ∨ ItemOk (doc.utf8Ok selfHref = true) p.2 ∨
      ∃ l, p.2 = .arr l ∧ ∀ j ∈ l, ItemOk (doc.utf8Ok selfHref = true) j)) ∨
    (p.1 = K.included ∧ ∃ l, p.2 = .arr l ∧ ∀ j ∈ l, ItemOk (doc.utf8Ok selfHref = true) j) := by
  unfold docBody at hp
  rw [he] at hp
  simp only [List.isEmpty_nil, Bool.not_true, Bool.false_eq_true, if_false] at hp
  split at hp
  · rename_i dj hdj
    simp only [List.mem_append, List.mem_singleton] at hp
    rcases hp with rfl | hp
    · exact .inl ⟨rfl, dataMember_ok doc hkw he fields selfHref dj hdj⟩
    · split at hp
      · cases hp
      · simp only [List.mem_singleton] at hp
        subst hp
        refine .inr ⟨rfl, _, rfl, ?_⟩
        intro j hj
        obtain ⟨r, hr, rfl⟩ := List.mem_map.1 hj
        have hr' : r ∈ doc.included := (sortById_perm _).mem_iff.1 hr
        have hm : r ∈ docResources doc := by simp [docResources, hr']
        exact resObj_item doc selfHref r hm (hkw r hm) _
  · cases hp

/-- what `Error.MarshalJSON` writes has the shape of an error object -/
theorem errObj_shape (nc : GoString → Option GoString) (e : ErrorObj)
    (hl : (e.links.map (·.1)).Nodup) (hs : Jsonapi.metaCanon nc (.obj e.source) = true)
    (hm : Jsonapi.metaCanon nc (.obj e.emeta) = true) : errObjShape nc e.toJson = true := by
  rw [RtL.toJson_eq]
  simp only [errObjShape, Bool.and_eq_true, decide_eq_true_eq, List.all_eq_true]
  refine ⟨RtL.keys_sorted_nodup ((RtL.optMembers_keys_sublist _).nodup (RtL.errMembers_nodup e)), ?_⟩
  intro p hp
  obtain ⟨k, j⟩ := p
  have hp := RtL.mem_optMembers.1 ((sortMembers_perm _).mem_iff.1 hp)
  simp only [RtL.errMembers, List.mem_cons, Prod.mk.injEq, List.not_mem_nil, or_false] at hp
  rcases hp with ⟨-, rfl, rfl⟩ | ⟨-, rfl, rfl⟩ | ⟨-, rfl, rfl⟩ | ⟨-, rfl, rfl⟩ | ⟨-, rfl, rfl⟩ |
    ⟨-, rfl, rfl⟩ | ⟨-, rfl, rfl⟩ | ⟨-, rfl, rfl⟩
  · simp [errMemberOk, Json.isStr]
  · simp [errMemberOk, Json.isStr]
  · simp [errMemberOk, Json.isStr]
  · simp [errMemberOk, Json.isStr]
  · simp [errMemberOk, Json.isStr]
  · have h1 : errLinksOk (Json.obj (sortMembers (e.links.map (fun p => (p.1, Json.str p.2))))) = true := by
      simp only [errLinksOk, Bool.and_eq_true, decide_eq_true_eq, List.all_eq_true]
      refine ⟨RtL.keys_sorted_nodup (by simpa [List.map_map, Function.comp_def] using hl), ?_⟩
      intro q hq
      obtain ⟨x, -, rfl⟩ := List.mem_map.1 ((sortMembers_perm _).mem_iff.1 hq)
      rfl
    simp [errMemberOk, h1]
  · simp [errMemberOk, metaObjOk, hs]
  · simp [errMemberOk, metaObjOk, hm]

/-- the members `Error.MarshalJSON` may write -/
theorem errObj_members (e : ErrorObj) (p : GoString × Json)
    (hp : p ∈ sortMembers (RtL.optMembers (RtL.errMembers e))) :
    p = (K.id, .str e.id) ∨ p = (K.code, .str e.code) ∨ p = (K.status, .str e.status) ∨
    p = (K.title, .str e.title) ∨ p = (K.detail, .str e.detail) ∨
    p = (K.links, .obj (sortMembers (e.links.map (fun p => (p.1, Json.str p.2))))) ∨
    p = (K.source, .obj e.source) ∨ p = (K.kmeta, .obj e.emeta) := by
  obtain ⟨k, j⟩ := p
  have hp := RtL.mem_optMembers.1 ((sortMembers_perm _).mem_iff.1 hp)
  simp only [RtL.errMembers, List.mem_cons, Prod.mk.injEq, List.not_mem_nil, or_false] at hp
  rcases hp with ⟨-, rfl, rfl⟩ | ⟨-, rfl, rfl⟩ | ⟨-, rfl, rfl⟩ | ⟨-, rfl, rfl⟩ | ⟨-, rfl, rfl⟩ |
    ⟨-, rfl, rfl⟩ | ⟨-, rfl, rfl⟩ | ⟨-, rfl, rfl⟩ <;> simp

theorem errObj_strs (e : ErrorObj) (h : e.utf8Ok = true) : strsAll utf8Valid e.toJson = true := by
  rw [RtL.toJson_eq]
  simp only [ErrorObj.utf8Ok, Bool.and_eq_true, List.all_eq_true] at h
  obtain ⟨⟨⟨⟨⟨⟨⟨h1, h2⟩, h3⟩, h4⟩, h5⟩, h6⟩, h7⟩, h8⟩ := h
  simp only [strsAll]
  rw [strsAllMembers_iff]
  intro p hp
  rcases errObj_members e p hp with rfl | rfl | rfl | rfl | rfl | rfl | rfl | rfl
  · exact ⟨kv_id, h1⟩
  · exact ⟨kv_code, h2⟩
  · exact ⟨kv_status, h3⟩
  · exact ⟨kv_title, h4⟩
  · exact ⟨kv_detail, h5⟩
  · refine ⟨kv_links, ?_⟩
    simp only [strsAll]
    rw [strsAllMembers_iff]
    intro q hq
    obtain ⟨x, hx, rfl⟩ := List.mem_map.1 ((sortMembers_perm _).mem_iff.1 hq)
    exact h6 x hx
  · exact ⟨kv_source, h7⟩
  · exact ⟨kv_kmeta, h8⟩

theorem errObj_depth (e : ErrorObj) (h : e.depthOk = true) : depth e.toJson + 1 < maxDepth := by
  rw [RtL.toJson_eq]
  simp only [ErrorObj.depthOk, Bool.and_eq_true, decide_eq_true_eq] at h
  simp only [depth] at h ⊢
  have : depthMembers (sortMembers (RtL.optMembers (RtL.errMembers e))) ≤ maxDepth - 3 := by
    rw [depthMembers_le]
    intro p hp
    rcases errObj_members e p hp with rfl | rfl | rfl | rfl | rfl | rfl | rfl | rfl
    · simp [depth, maxDepth]
    · simp [depth, maxDepth]
    · simp [depth, maxDepth]
    · simp [depth, maxDepth]
    · simp [depth, maxDepth]
    · simp only [depth]
      have : depthMembers (sortMembers (e.links.map (fun p => (p.1, Json.str p.2)))) ≤ 0 := by
        rw [depthMembers_le]
        intro q hq
        obtain ⟨x, -, rfl⟩ := List.mem_map.1 ((sortMembers_perm _).mem_iff.1 hq)
        simp [depth]
      simp only [maxDepth]; omega
    · simp only [depth]; omega
    · simp only [depth]; omega
  simp only [maxDepth] at this ⊢
  omega

/-- what is asked of one error object of `errors` -/
def ErrItemOk (nc : GoString → Option GoString) (Dp U : Prop) (j : Json) : Prop :=
  errObjShape nc j = true ∧ (Dp → depth j + 1 < maxDepth) ∧ (U → strsAll utf8Valid j = true)

/-- the members of the body of a document -/
theorem docBody_ok' (nc : GoString → Option GoString) (doc : Document)
    (hkw : ∀ r ∈ docResources doc, r.keyedWf)
    (hmc : doc.metaCanon nc = true) (hln : doc.errLinksOk = true)
    (fields : GoMap (List GoString)) (selfHref : GoString)
    (p : GoString × Json) (hp : p ∈ docBody doc fields) :
    (p.1 = K.data ∧ (p.2 = .null ∨ ItemOk (doc.utf8Ok selfHref = true) p.2 ∨
      ∃ l, p.2 = .arr l ∧ ∀ j ∈ l, ItemOk (doc.utf8Ok selfHref = true) j)) ∨
    (p.1 = K.included ∧ ∃ l, p.2 = .arr l ∧ ∀ j ∈ l, ItemOk (doc.utf8Ok selfHref = true) j) ∨
    (p.1 = K.errors ∧ ∃ l, p.2 = .arr l ∧ ∀ j ∈ l,
      ErrItemOk nc (doc.depthOk selfHref = true) (doc.utf8Ok selfHref = true) j) := by
  by_cases he : doc.errors = []
  · rcases docBody_ok doc hkw he fields selfHref p hp with h | h
    · exact .inl h
    · exact .inr (.inl h)
  · have hb : docBody doc fields = [(K.errors, .arr (doc.errors.map ErrorObj.toJson))] := by
      unfold docBody
      have : (!doc.errors.isEmpty) = true := by
        cases hd : doc.errors with
        | nil => exact absurd hd he
        | cons => rfl
      rw [if_pos this]
    rw [hb, List.mem_singleton] at hp
    subst hp
    refine .inr (.inr ⟨rfl, _, rfl, ?_⟩)
    intro j hj
    obtain ⟨e, hemem, rfl⟩ := List.mem_map.1 hj
    simp only [Document.metaCanon, Bool.and_eq_true, List.all_eq_true] at hmc
    simp only [Document.errLinksOk, List.all_eq_true, decide_eq_true_eq] at hln
    refine ⟨errObj_shape nc e (hln e hemem) (hmc.2 e hemem).1 (hmc.2 e hemem).2, ?_, ?_⟩
    · intro hd
      simp only [Document.depthOk, Bool.and_eq_true, List.all_eq_true, decide_eq_true_eq] at hd
      exact errObj_depth e (hd.2 e hemem)
    · intro hu
      simp only [Document.utf8Ok, Bool.and_eq_true, List.all_eq_true] at hu
      exact errObj_strs e (hu.2 e hemem)

/-- Every tree `Spec.documentTree` gives for a document whose resources are `keyedWf`, whose
top-level meta and error `source` / `meta` are canonical and whose error `links` maps have
distinct keys has the shape; its nesting depth is bounded when that of the `links` and `meta`
members and of the error objects is; its strings are valid UTF-8 when the document's are. -/
theorem documentTree_shape (nc : GoString → Option GoString) (doc : Document)
    (hkw : ∀ r ∈ docResources doc, r.keyedWf)
    (hmc : doc.metaCanon nc = true) (hln : doc.errLinksOk = true) (fields : GoMap (List GoString))
    (selfHref : GoString) (t : Json) (ht : Spec.documentTree doc fields selfHref = some t) :
    DocTreeShape nc t = true ∧
    (doc.depthOk selfHref = true → depth t ≤ maxDepth) ∧
    (doc.utf8Ok selfHref = true → strsAll utf8Valid t = true) := by
  rw [documentTree_some ht]
  have hmem : ∀ p ∈ sortMembers (MarshalL.docMembers doc fields selfHref),
      p ∈ docBody doc fields ∨ p = (K.links, Json.obj (sortMembers (docLinks doc selfHref))) ∨
        p = (K.jsonapi, Json.obj [(K.version, .str K.v10)]) ∨ p = (K.kmeta, Json.obj doc.dmeta) := by
    intro p hp
    have hp := (sortMembers_perm _).mem_iff.1 hp
    simp only [MarshalL.docMembers, List.mem_append, List.mem_cons, List.not_mem_nil, or_false] at hp
    rcases hp with (hp | hp) | hp | hp
    · exact .inl hp
    · split at hp
      · cases hp
      · simp only [List.mem_singleton] at hp
        exact .inr (.inr (.inr hp))
    · exact .inr (.inl hp)
    · exact .inr (.inr (.inl hp))
  have hbody := docBody_ok' nc doc hkw hmc hln fields selfHref
  simp only [Document.metaCanon, Bool.and_eq_true] at hmc
  refine ⟨?_, ?_, ?_⟩
  · simp only [DocTreeShape, Bool.and_eq_true, decide_eq_true_eq, List.all_eq_true]
    refine ⟨RtL.keys_sorted_nodup (docMembers_nodup ..), ?_⟩
    intro p hp
    rcases hmem p hp with hb | rfl | rfl | rfl
    · obtain ⟨k, v⟩ := p
      rcases hbody _ hb with ⟨hk, hv⟩ | ⟨hk, l, hv, hl⟩ | ⟨hk, l, hv, hl⟩
      · simp only at hk hv
        subst hk
        have : docDataShape v = true := by
          rcases hv with rfl | hv | ⟨l, rfl, hl⟩
          · rfl
          · exact docDataShape_of v hv.1
          · simp only [docDataShape, List.all_eq_true]
            exact fun j hj => (hl j hj).1
        simp [docMemberOk, this]
      · simp only at hk hv
        subst hk hv
        have : incShape (.arr l) = true := by
          simp only [incShape, List.all_eq_true, incItemShape, Bool.and_eq_true]
          exact fun j hj => ⟨(hl j hj).1, (hl j hj).2.1⟩
        simp [docMemberOk, this]
      · simp only at hk hv
        subst hk hv
        have : errsShape nc (.arr l) = true := by
          simp only [errsShape, List.all_eq_true]
          exact fun j hj => (hl j hj).1
        simp [docMemberOk, this]
    · simp [docMemberOk]
    · simp [docMemberOk]
    · simp [docMemberOk, metaObjOk, hmc.1]
  · intro hdp
    have hl := hdp
    simp only [Document.depthOk, Bool.and_eq_true, decide_eq_true_eq] at hl
    obtain ⟨⟨hl, hlm⟩, -⟩ := hl
    simp only [depth] at hl hlm ⊢
    have : depthMembers (sortMembers (MarshalL.docMembers doc fields selfHref)) ≤ maxDepth - 1 := by
      rw [depthMembers_le]
      intro p hp
      rcases hmem p hp with hb | rfl | rfl | rfl
      · rcases hbody _ hb with ⟨_, hv⟩ | ⟨_, l, hv, hl⟩ | ⟨_, l, hv, hl⟩
        · have h6 : depth p.2 ≤ 6 := by
            rcases hv with hv | hv | ⟨l, hv, hl⟩
            · rw [hv]; simp [depth]
            · have := hv.2.2.1; omega
            · rw [hv]; simp only [depth]
              have : depthList l ≤ 5 := (depthList_le _ _).2 (fun j hj => (hl j hj).2.2.1)
              omega
          simp only [maxDepth]; omega
        · have h6 : depth p.2 ≤ 6 := by
            rw [hv]; simp only [depth]
            have : depthList l ≤ 5 := (depthList_le _ _).2 (fun j hj => (hl j hj).2.2.1)
            omega
          simp only [maxDepth]; omega
        · rw [hv]; simp only [depth]
          have : depthList l ≤ maxDepth - 2 := (depthList_le _ _).2 (fun j hj => by
            have := (hl j hj).2.1 hdp
            omega)
          simp only [maxDepth] at this ⊢
          omega
      · simp only [depth]
        have e : depthMembers (sortMembers (docLinks doc selfHref)) ≤
            depthMembers (docLinks doc selfHref) := by
          rw [depthMembers_le]
          intro q hq
          exact (depthMembers_le _ _).1 (Nat.le_refl _) q ((sortMembers_perm _).mem_iff.1 hq)
        omega
      · simp [depth, depthMembers, maxDepth]
      · simp only [depth]; omega
    simp only [maxDepth] at this ⊢
    omega
  · intro hu
    simp only [strsAll]
    rw [strsAllMembers_iff]
    intro p hp
    rcases hmem p hp with hb | rfl | rfl | rfl
    · rcases hbody _ hb with ⟨hk, hv⟩ | ⟨hk, l, hv, hl⟩ | ⟨hk, l, hv, hl⟩
      · refine ⟨by rw [hk]; exact kv_data, ?_⟩
        rcases hv with hv | hv | ⟨l, hv, hl⟩
        · rw [hv]; rfl
        · exact hv.2.2.2 hu
        · rw [hv]; simp only [strsAll]
          exact (strsAllList_iff _ _).2 (fun j hj => (hl j hj).2.2.2 hu)
      · refine ⟨by rw [hk]; exact kv_included, ?_⟩
        rw [hv]; simp only [strsAll]
        exact (strsAllList_iff _ _).2 (fun j hj => (hl j hj).2.2.2 hu)
      · refine ⟨by rw [hk]; exact kv_errors, ?_⟩
        rw [hv]; simp only [strsAll]
        exact (strsAllList_iff _ _).2 (fun j hj => (hl j hj).2.2 hu)
    · refine ⟨kv_links, ?_⟩
      simp only [Document.utf8Ok, Bool.and_eq_true] at hu
      have h3 := hu.1.1.2
      simp only [strsAll] at h3 ⊢
      rw [strsAllMembers_iff] at h3 ⊢
      exact fun q hq => h3 q ((sortMembers_perm _).mem_iff.1 hq)
    · exact ⟨kv_jsonapi, by decide⟩
    · simp only [Document.utf8Ok, Bool.and_eq_true] at hu
      exact ⟨kv_kmeta, hu.1.2⟩

end DocbL
end Jsonapi
