/-
Helper lemmas for the round-trip property C02, part 2: the members of the document tree,
the document skeleton and the evaluation of `unmarshalDocument` on it.
-/
import Jsonapi.Proofs.RoundTripLemmas4
namespace Jsonapi
namespace RtL
open GoMap UnmL MarshalL


/-! ### members of the document tree -/

theorem tree_get?_mem {doc : Document} {fields : GoMap (List GoString)} {selfHref : GoString}
    {t : Json} (h : Spec.documentTree doc fields selfHref = some t) {k : GoString} {v : Json}
    (hm : (k, v) ∈ docMembers doc fields selfHref) : t.get? k = some v := by
  rw [documentTree_some h]
  exact get?_sortMembers_of_mem (docMembers_nodup doc fields selfHref) hm

theorem tree_get?_none {doc : Document} {fields : GoMap (List GoString)} {selfHref : GoString}
    {t : Json} (h : Spec.documentTree doc fields selfHref = some t) {k : GoString}
    (hm : k ∉ (docMembers doc fields selfHref).map (·.1)) : t.get? k = none := by
  rw [documentTree_some h]
  exact get?_sortMembers_none hm

theorem tree_kmeta {doc : Document} {fields : GoMap (List GoString)} {selfHref : GoString}
    {t : Json} (h : Spec.documentTree doc fields selfHref = some t) :
    Spec.membersOf (t.get? K.kmeta) = doc.dmeta := by
  cases hm : doc.dmeta with
  | nil =>
    rw [tree_get?_none h]
    · rfl
    · rw [docMembers_keys, hm]
      rcases docBody_keys doc fields with e | e | e | e <;> rw [e] <;> decide
  | cons x l =>
    rw [tree_get?_mem h (v := .obj doc.dmeta)]
    · rw [hm]; rfl
    · simp [docMembers, hm]

theorem docBody_errors {doc : Document} (fields : GoMap (List GoString)) (h : doc.errors ≠ []) :
    docBody doc fields = [(K.errors, .arr (doc.errors.map ErrorObj.toJson))] := by
  unfold docBody
  cases he : doc.errors with
  | nil => exact absurd he h
  | cons x l => simp

theorem docBody_data {doc : Document} (fields : GoMap (List GoString)) (h : doc.errors = [])
    {dj : Json} (hd : Spec.dataMember doc fields = some dj) :
    docBody doc fields = [(K.data, dj)] ++
      (if doc.included.isEmpty then []
       else [(K.included, .arr ((sortById doc.included).map (fun r =>
          Spec.resourceObject r doc.prePath (Spec.selection fields r.typeName) doc.relData)))]) := by
  unfold docBody
  simp [h, hd]

/-- the members of an error document -/
theorem tree_errors {doc : Document} {fields : GoMap (List GoString)} {selfHref : GoString}
    {t : Json} (h : Spec.documentTree doc fields selfHref = some t) (he : doc.errors ≠ []) :
    t.get? K.errors = some (.arr (doc.errors.map ErrorObj.toJson)) ∧ t.get? K.data = none ∧
    t.get? K.included = none := by
  have hb := docBody_errors fields he
  refine ⟨tree_get?_mem h (by simp [docMembers, hb]), ?_, ?_⟩
  · apply tree_get?_none h
    rw [docMembers_keys, hb]
    cases doc.dmeta.isEmpty <;>
      (simp only [Bool.false_eq_true, if_false, if_true, List.append_nil, List.cons_append,
        List.nil_append, List.map_cons, List.map_nil]; decide)
  · apply tree_get?_none h
    rw [docMembers_keys, hb]
    cases doc.dmeta.isEmpty <;>
      (simp only [Bool.false_eq_true, if_false, if_true, List.append_nil, List.cons_append,
        List.nil_append, List.map_cons, List.map_nil]; decide)

/-- the members of a data document -/
theorem tree_data {doc : Document} {fields : GoMap (List GoString)} {selfHref : GoString}
    {t : Json} (h : Spec.documentTree doc fields selfHref = some t) (he : doc.errors = [])
    {dj : Json} (hd : Spec.dataMember doc fields = some dj) :
    t.get? K.errors = none ∧ t.get? K.data = some dj ∧
    t.get? K.included = if doc.included.isEmpty then none
      else some (.arr ((sortById doc.included).map (fun r =>
          Spec.resourceObject r doc.prePath (Spec.selection fields r.typeName) doc.relData))) := by
  have hb := docBody_data fields he hd
  refine ⟨?_, tree_get?_mem h (by simp [docMembers, hb]), ?_⟩
  · apply tree_get?_none h
    rw [docMembers_keys, hb]
    cases doc.dmeta.isEmpty <;> cases doc.included.isEmpty <;>
      (simp only [Bool.false_eq_true, if_false, if_true, List.append_nil, List.cons_append,
        List.nil_append, List.map_cons, List.map_nil]; decide)
  · cases hi : doc.included.isEmpty
    · simp only [Bool.false_eq_true, if_false]
      exact tree_get?_mem h (by simp [docMembers, hb, hi])
    · simp only [if_true]
      apply tree_get?_none h
      rw [docMembers_keys, hb, hi]
      cases doc.dmeta.isEmpty <;>
      (simp only [Bool.false_eq_true, if_false, if_true, List.append_nil, List.cons_append,
        List.nil_append, List.map_cons, List.map_nil]; decide)

/-- with no errors the specification's tree exists exactly when there is a data member -/
theorem dataMember_of_tree {doc : Document} {fields : GoMap (List GoString)} {selfHref : GoString}
    {t : Json} (h : Spec.documentTree doc fields selfHref = some t) (he : doc.errors = []) :
    ∃ dj, Spec.dataMember doc fields = some dj := by
  unfold Spec.documentTree at h
  unfold Spec.dataMember
  cases hd : doc.data with
  | other => rw [hd] at h; simp [he] at h
  | none => simp [he]
  | res r => exact ⟨_, rfl⟩
  | col tn ms => exact ⟨_, rfl⟩
  | ident i ty => exact ⟨_, rfl⟩
  | idents b l => exact ⟨_, rfl⟩



/-! ### evaluating `unmarshalDocument` -/

/-- the first half of `UnmarshalDocument`: the primary data (and, without data, the errors) -/
def dataStep (σ : SSchema) (sk : DocSke) : Res (UDocData × List ErrorObj) :=
  match sk.data with
  | .res r => (match unmarshalRes? σ r with
    | .ok x => .ok (.res x, []) | .err => .err | .panic => .panic)
  | .col none => .err
  | .col (some l) => (match unmarshalList σ l with
    | .ok xs => .ok (.col xs, []) | .err => .err | .panic => .panic)
  | .null => .ok (.none, [])
  | .other => .err
  | .absent => .ok (.none, sk.errors)

theorem unmarshalDocument_of_steps {σ : SSchema} {sk : DocSke} {d : UDocData}
    {errs : List ErrorObj} {incs : List AnyRes}
    (h1 : dataStep σ sk = .ok (d, errs)) (h2 : sk.included.any (fun p => !p.1) = false)
    (h3 : unmarshalList σ (sk.included.map (·.2)) = .ok incs) :
    unmarshalDocument σ (some sk) =
      .ok { data := d, included := incs, errors := errs, dmeta := sk.dmeta } := by
  have : unmarshalDocument σ (some sk) =
      (match dataStep σ sk with
      | .ok (d, errs) =>
        if sk.included.any (fun p => !p.1) then .err
        else (match unmarshalList σ (sk.included.map (·.2)) with
          | .ok incs => .ok { data := d, included := incs, errors := errs, dmeta := sk.dmeta }
          | .err => .err
          | .panic => .panic)
      | .err => .err
      | .panic => .panic) := rfl
  rw [this, h1]
  simp only [h2, Bool.false_eq_true, if_false, h3]

/-- element-wise unmarshaling of a list of raw resources -/
theorem unmarshalList_map {α : Type} {σ : SSchema} (f : α → ResSke?) (P : α → AnyRes → Prop)
    (l : List α) (h : ∀ x ∈ l, ∃ res, unmarshalRes? σ (f x) = .ok res ∧ P x res) :
    ∃ rs, unmarshalList σ (l.map f) = .ok rs ∧ Forall2 P l rs := by
  induction l with
  | nil => exact ⟨[], rfl, .nil⟩
  | cons x l ih =>
    obtain ⟨res, h1, h2⟩ := h x (List.mem_cons_self ..)
    obtain ⟨rs, h3, h4⟩ := ih (fun y hy => h y (List.mem_cons_of_mem _ hy))
    refine ⟨res :: rs, ?_, .cons h2 h4⟩
    simp only [List.map_cons, unmarshalList, h1, h3]

/-! ### error documents and top-level meta -/

theorem docSke_dmeta (c : Spec.Codecs) {doc : Document} {fields : GoMap (List GoString)}
    {selfHref : GoString} {t : Json} (h : Spec.documentTree doc fields selfHref = some t) :
    (Spec.docSkeletonOf c t).dmeta = doc.dmeta := tree_kmeta h

theorem docSke_errors (c : Spec.Codecs) {doc : Document} {fields : GoMap (List GoString)}
    {selfHref : GoString} {t : Json} (h : Spec.documentTree doc fields selfHref = some t)
    (he : doc.errors ≠ []) (hs : ∀ e ∈ doc.errors, Spec.linksSorted e) :
    Spec.docSkeletonOf c t =
      { data := .absent, errors := doc.errors, included := [], dmeta := doc.dmeta } := by
  obtain ⟨h1, h2, h3⟩ := tree_errors h he
  unfold Spec.docSkeletonOf
  rw [h1, h2, h3, tree_kmeta h]
  simp only [List.map_map]
  congr 1
  rw [List.map_congr_left (g := id)]
  · simp
  · intro e hm
    exact errorOfJson_toJson e (hs e hm)

theorem errors_roundtrip (c : Spec.Codecs) (σ : SSchema) {doc : Document}
    {fields : GoMap (List GoString)} {selfHref : GoString} {t : Json}
    (h : Spec.documentTree doc fields selfHref = some t)
    (he : doc.errors ≠ []) (hs : ∀ e ∈ doc.errors, Spec.linksSorted e) :
    unmarshalDocument σ (some (Spec.docSkeletonOf c t)) =
      .ok { data := .none, included := [], errors := doc.errors, dmeta := doc.dmeta } := by
  rw [docSke_errors c h he hs]
  exact unmarshalDocument_of_steps
    (sk := { data := .absent, errors := doc.errors, included := [], dmeta := doc.dmeta })
    rfl rfl rfl

end RtL
end Jsonapi
