/-
PART 2a: NewSimpleURL does not depend on the iteration order of the values map
(up to the order of the `fields` / `page` association lists it builds).
-/
import Jsonapi.Proofs.UrlPermLemmas
namespace Jsonapi.UrlL.Perm
open Jsonapi

/-! ### classification of a parameter name -/

inductive Cls where
  | fields (k : GoString)
  | page (k : GoString)
  | filter
  | sort
  | incl
  | other

/-- the branch of `simpleStep` a name selects -/
def classify (name : GoString) : Cls :=
  if hasPrefix name sFieldsOpen && name.getLast? = some 93 && name.length > 8 then
    .fields ((name.drop 7).dropLast)
  else if hasPrefix name sPageOpen && name.getLast? = some 93 && name.length > 6 then
    .page ((name.drop 5).dropLast)
  else if name = sFilter then .filter
  else if name = sSort then .sort
  else if name = sInclude then .incl
  else .other

def pageVal (v : GoString) : PageVal :=
  match parseInt 64 v with
  | some n => .int n
  | none => .str v

def filterOk (fd : FilterDec) (vs : List GoString) : Bool :=
  if firstVal vs = [] then false
  else if (firstVal vs).head? ≠ some 123 then fd.label.isSome
  else fd.filter.isSome

/-- does the step succeed? (independent of the accumulator) -/
def stepOk (fd : FilterDec) (name : GoString) (vs : List GoString) : Bool :=
  match classify name with
  | .filter => filterOk fd vs
  | .other => false
  | _ => true

def fFields (name : GoString) (vs : List GoString) (m : GoMap (List GoString)) : GoMap (List GoString) :=
  match classify name with
  | .fields k => m.set k (parseCommaList (firstVal vs))
  | _ => m

def fPage (name : GoString) (vs : List GoString) (m : GoMap PageVal) : GoMap PageVal :=
  match classify name with
  | .page k => if firstVal vs = [] then m else m.set k (pageVal (firstVal vs))
  | _ => m

def fLabel (fd : FilterDec) (name : GoString) (vs : List GoString) (x : GoString) : GoString :=
  match classify name with
  | .filter =>
    if (firstVal vs).head? ≠ some 123 then (match fd.label with | some l => l | none => x) else x
  | _ => x

def fFilter (fd : FilterDec) (name : GoString) (vs : List GoString) (x : Option GoString) : Option GoString :=
  match classify name with
  | .filter =>
    if (firstVal vs).head? ≠ some 123 then x else (match fd.filter with | some f => some f | none => x)
  | _ => x

def fSort (name : GoString) (vs : List GoString) (x : List GoString) : List GoString :=
  match classify name with
  | .sort => x ++ vs.flatMap parseCommaList
  | _ => x

def fIncl (name : GoString) (vs : List GoString) (x : List GoString) : List GoString :=
  match classify name with
  | .incl => x ++ vs.flatMap parseCommaList
  | _ => x

/-- the effect of a successful step, component by component -/
def stepApply (fd : FilterDec) (su : SimpleURL) (name : GoString) (vs : List GoString) : SimpleURL :=
  { fragments := su.fragments
    fields := fFields name vs su.fields
    filterLabel := fLabel fd name vs su.filterLabel
    filter := fFilter fd name vs su.filter
    sortingRules := fSort name vs su.sortingRules
    page := fPage name vs su.page
    incl := fIncl name vs su.incl }

theorem simpleStep_eq (fd : FilterDec) (su : SimpleURL) (name : GoString) (vs : List GoString) :
    simpleStep fd su name vs =
      if stepOk fd name vs then .ok (stepApply fd su name vs) else .err := by
  unfold simpleStep stepOk stepApply fFields fPage fLabel fFilter fSort fIncl filterOk
  by_cases h1 : (hasPrefix name sFieldsOpen && name.getLast? = some 93 && name.length > 8) = true
  · have hc : classify name = .fields ((name.drop 7).dropLast) := by
      unfold classify; rw [if_pos h1]
    rw [if_pos h1]
    simp only [hc, if_true]
  · rw [if_neg h1]
    by_cases h2 : (hasPrefix name sPageOpen && name.getLast? = some 93 && name.length > 6) = true
    · have hc : classify name = .page ((name.drop 5).dropLast) := by
        unfold classify; rw [if_neg h1, if_pos h2]
      rw [if_pos h2]
      simp only [hc, if_true]
      by_cases hv : firstVal vs = []
      · simp only [hv, if_true]
      · simp only [hv, if_false, pageVal]
        cases parseInt 64 (firstVal vs) <;> rfl
    · rw [if_neg h2]
      by_cases h3 : name = sFilter
      · have hc : classify name = .filter := by
          unfold classify; rw [if_neg h1, if_neg h2, if_pos h3]
        rw [if_pos h3]
        simp only [hc]
        by_cases hv : firstVal vs = []
        · simp only [hv, if_true]; rfl
        · simp only [hv, if_false]
          by_cases hh : (firstVal vs).head? = some 123
          · simp only [hh, ne_eq, not_true_eq_false, if_false]
            cases fd.filter <;> simp
          · simp only [hh, ne_eq, not_false_eq_true, if_true]
            cases fd.label <;> simp
      · rw [if_neg h3]
        by_cases h4 : name = sSort
        · have hc : classify name = .sort := by
            unfold classify; rw [if_neg h1, if_neg h2, if_neg h3, if_pos h4]
          rw [if_pos h4]
          simp only [hc, if_true]
        · rw [if_neg h4]
          by_cases h5 : name = sInclude
          · have hc : classify name = .incl := by
              unfold classify; rw [if_neg h1, if_neg h2, if_neg h3, if_neg h4, if_pos h5]
            rw [if_pos h5]
            simp only [hc, if_true]
          · have hc : classify name = .other := by
              unfold classify; rw [if_neg h1, if_neg h2, if_neg h3, if_neg h4, if_neg h5]
            rw [if_neg h5]
            simp only [hc]
            rfl


/-! ### a name is determined by its class -/

theorem name_reconstruct (n pre : GoString) (d : Nat) (hd : pre.length = d)
    (hp : hasPrefix n pre = true) (hl : n.getLast? = some 93) (hlen : n.length > d + 1) :
    n = pre ++ (n.drop d).dropLast ++ [93] := by
  unfold hasPrefix at hp
  rw [List.isPrefixOf_iff_prefix] at hp
  obtain ⟨t, rfl⟩ := hp
  have hdrop : (pre ++ t).drop d = t := by rw [← hd]; exact List.drop_left
  rw [hdrop]
  have htne : t ≠ [] := by
    intro e; subst e; simp at hlen; omega
  have htl : t.getLast htne = 93 := by
    rw [List.getLast?_append, List.getLast?_eq_some_getLast htne] at hl
    simpa using hl
  rw [List.append_assoc, ← htl, List.dropLast_concat_getLast htne]

theorem classify_fields {n k : GoString} (h : classify n = .fields k) :
    n = sFieldsOpen ++ k ++ [93] := by
  unfold classify at h
  split at h
  · rename_i hc
    simp only [Bool.and_eq_true, decide_eq_true_eq] at hc
    cases h
    exact name_reconstruct n sFieldsOpen 7 rfl hc.1.1 hc.1.2 hc.2
  · split at h
    · cases h
    · split at h
      · cases h
      · split at h
        · cases h
        · split at h <;> cases h

theorem classify_page {n k : GoString} (h : classify n = .page k) :
    n = sPageOpen ++ k ++ [93] := by
  unfold classify at h
  split at h
  · cases h
  · split at h
    · rename_i hc
      simp only [Bool.and_eq_true, decide_eq_true_eq] at hc
      cases h
      exact name_reconstruct n sPageOpen 5 rfl hc.1.1 hc.1.2 hc.2
    · split at h
      · cases h
      · split at h
        · cases h
        · split at h <;> cases h

theorem classify_filter {n : GoString} (h : classify n = .filter) : n = sFilter := by
  unfold classify at h
  split at h
  · cases h
  · split at h
    · cases h
    · split at h
      · assumption
      · split at h
        · cases h
        · split at h <;> cases h

theorem classify_sort {n : GoString} (h : classify n = .sort) : n = sSort := by
  unfold classify at h
  split at h
  · cases h
  · split at h
    · cases h
    · split at h
      · cases h
      · split at h
        · assumption
        · split at h <;> cases h

theorem classify_incl {n : GoString} (h : classify n = .incl) : n = sInclude := by
  unfold classify at h
  split at h
  · cases h
  · split at h
    · cases h
    · split at h
      · cases h
      · split at h
        · cases h
        · split at h
          · assumption
          · cases h

/-! ### equivalence of simple URLs: equal up to the order of the `fields` / `page` lists -/

structure SEq (a b : SimpleURL) : Prop where
  fragments : a.fragments = b.fragments
  filterLabel : a.filterLabel = b.filterLabel
  filter : a.filter = b.filter
  sortingRules : a.sortingRules = b.sortingRules
  incl : a.incl = b.incl
  fields : ∀ t, a.fields.get? t = b.fields.get? t
  page : ∀ k, a.page.get? k = b.page.get? k

theorem SEq.refl (a : SimpleURL) : SEq a a := ⟨rfl, rfl, rfl, rfl, rfl, fun _ => rfl, fun _ => rfl⟩

theorem SEq.trans {a b c : SimpleURL} (h₁ : SEq a b) (h₂ : SEq b c) : SEq a c :=
  ⟨h₁.fragments.trans h₂.fragments, h₁.filterLabel.trans h₂.filterLabel, h₁.filter.trans h₂.filter,
   h₁.sortingRules.trans h₂.sortingRules, h₁.incl.trans h₂.incl,
   fun t => (h₁.fields t).trans (h₂.fields t), fun k => (h₁.page k).trans (h₂.page k)⟩

/-! ### congruence -/

theorem fFields_get?_congr (n : GoString) (vs : List GoString) {m m' : GoMap (List GoString)}
    (h : ∀ t, m.get? t = m'.get? t) (t : GoString) :
    (fFields n vs m).get? t = (fFields n vs m').get? t := by
  unfold fFields
  split
  · rw [get?_set, get?_set, h t]
  · exact h t

theorem fPage_get?_congr (n : GoString) (vs : List GoString) {m m' : GoMap PageVal}
    (h : ∀ t, m.get? t = m'.get? t) (t : GoString) :
    (fPage n vs m).get? t = (fPage n vs m').get? t := by
  unfold fPage
  split
  · split
    · exact h t
    · rw [get?_set, get?_set, h t]
  · exact h t

theorem stepApply_congr (fd : FilterDec) {a b : SimpleURL} (n : GoString) (vs : List GoString)
    (h : SEq a b) : SEq (stepApply fd a n vs) (stepApply fd b n vs) where
  fragments := h.fragments
  filterLabel := by simp only [stepApply, h.filterLabel]
  filter := by simp only [stepApply, h.filter]
  sortingRules := by simp only [stepApply, h.sortingRules]
  incl := by simp only [stepApply, h.incl]
  fields := fFields_get?_congr n vs h.fields
  page := fPage_get?_congr n vs h.page

/-! ### commutation of two steps with different names -/

theorem fSort_of_ne {n : GoString} (h : n ≠ sSort) (vs : List GoString) (x : List GoString) :
    fSort n vs x = x := by
  unfold fSort
  split
  · rename_i hc; exact absurd (classify_sort hc) h
  · rfl

theorem fIncl_of_ne {n : GoString} (h : n ≠ sInclude) (vs : List GoString) (x : List GoString) :
    fIncl n vs x = x := by
  unfold fIncl
  split
  · rename_i hc; exact absurd (classify_incl hc) h
  · rfl

theorem fLabel_of_ne (fd : FilterDec) {n : GoString} (h : n ≠ sFilter) (vs : List GoString) (x : GoString) :
    fLabel fd n vs x = x := by
  unfold fLabel
  split
  · rename_i hc; exact absurd (classify_filter hc) h
  · rfl

theorem fFilter_of_ne (fd : FilterDec) {n : GoString} (h : n ≠ sFilter) (vs : List GoString)
    (x : Option GoString) : fFilter fd n vs x = x := by
  unfold fFilter
  split
  · rename_i hc; exact absurd (classify_filter hc) h
  · rfl

theorem fSort_comm {n₁ n₂ : GoString} (h : n₁ ≠ n₂) (v₁ v₂ : List GoString) (x : List GoString) :
    fSort n₂ v₂ (fSort n₁ v₁ x) = fSort n₁ v₁ (fSort n₂ v₂ x) := by
  by_cases h₁ : n₁ = sSort
  · have h₂ : n₂ ≠ sSort := fun e => h (h₁.trans e.symm)
    rw [fSort_of_ne h₂, fSort_of_ne h₂]
  · rw [fSort_of_ne h₁, fSort_of_ne h₁]

theorem fIncl_comm {n₁ n₂ : GoString} (h : n₁ ≠ n₂) (v₁ v₂ : List GoString) (x : List GoString) :
    fIncl n₂ v₂ (fIncl n₁ v₁ x) = fIncl n₁ v₁ (fIncl n₂ v₂ x) := by
  by_cases h₁ : n₁ = sInclude
  · have h₂ : n₂ ≠ sInclude := fun e => h (h₁.trans e.symm)
    rw [fIncl_of_ne h₂, fIncl_of_ne h₂]
  · rw [fIncl_of_ne h₁, fIncl_of_ne h₁]

theorem fLabel_comm (fd : FilterDec) {n₁ n₂ : GoString} (h : n₁ ≠ n₂) (v₁ v₂ : List GoString)
    (x : GoString) : fLabel fd n₂ v₂ (fLabel fd n₁ v₁ x) = fLabel fd n₁ v₁ (fLabel fd n₂ v₂ x) := by
  by_cases h₁ : n₁ = sFilter
  · have h₂ : n₂ ≠ sFilter := fun e => h (h₁.trans e.symm)
    rw [fLabel_of_ne fd h₂, fLabel_of_ne fd h₂]
  · rw [fLabel_of_ne fd h₁, fLabel_of_ne fd h₁]

theorem fFilter_comm (fd : FilterDec) {n₁ n₂ : GoString} (h : n₁ ≠ n₂) (v₁ v₂ : List GoString)
    (x : Option GoString) :
    fFilter fd n₂ v₂ (fFilter fd n₁ v₁ x) = fFilter fd n₁ v₁ (fFilter fd n₂ v₂ x) := by
  by_cases h₁ : n₁ = sFilter
  · have h₂ : n₂ ≠ sFilter := fun e => h (h₁.trans e.symm)
    rw [fFilter_of_ne fd h₂, fFilter_of_ne fd h₂]
  · rw [fFilter_of_ne fd h₁, fFilter_of_ne fd h₁]

theorem set_set_get?_comm {β} (m : GoMap β) {k₁ k₂ : GoString} (h : k₁ ≠ k₂) (a b : β) (t : GoString) :
    ((m.set k₁ a).set k₂ b).get? t = ((m.set k₂ b).set k₁ a).get? t := by
  simp only [get?_set]
  by_cases h₁ : t = k₁
  · have h₂ : ¬ t = k₂ := fun e => h (h₁.symm.trans e)
    simp [h₁, h]
  · simp [h₁]

theorem fFields_comm {n₁ n₂ : GoString} (h : n₁ ≠ n₂) (v₁ v₂ : List GoString)
    (m : GoMap (List GoString)) (t : GoString) :
    (fFields n₂ v₂ (fFields n₁ v₁ m)).get? t = (fFields n₁ v₁ (fFields n₂ v₂ m)).get? t := by
  unfold fFields
  cases h₁ : classify n₁ <;> cases h₂ : classify n₂ <;> try rfl
  rename_i k₁ k₂
  have hk : k₁ ≠ k₂ := by
    intro e
    apply h
    rw [classify_fields h₁, classify_fields h₂, e]
  exact set_set_get?_comm m hk _ _ t

theorem fPage_comm {n₁ n₂ : GoString} (h : n₁ ≠ n₂) (v₁ v₂ : List GoString)
    (m : GoMap PageVal) (t : GoString) :
    (fPage n₂ v₂ (fPage n₁ v₁ m)).get? t = (fPage n₁ v₁ (fPage n₂ v₂ m)).get? t := by
  unfold fPage
  cases h₁ : classify n₁ <;> cases h₂ : classify n₂ <;> try rfl
  rename_i k₁ k₂
  have hk : k₁ ≠ k₂ := by
    intro e
    apply h
    rw [classify_page h₁, classify_page h₂, e]
  simp only []
  split <;> split <;> try rfl
  exact set_set_get?_comm m hk _ _ t

theorem stepApply_comm (fd : FilterDec) (su : SimpleURL) {n₁ n₂ : GoString} (h : n₁ ≠ n₂)
    (v₁ v₂ : List GoString) :
    SEq (stepApply fd (stepApply fd su n₁ v₁) n₂ v₂) (stepApply fd (stepApply fd su n₂ v₂) n₁ v₁) where
  fragments := rfl
  filterLabel := fLabel_comm fd h v₁ v₂ _
  filter := fFilter_comm fd h v₁ v₂ _
  sortingRules := fSort_comm h v₁ v₂ _
  incl := fIncl_comm h v₁ v₂ _
  fields := fFields_comm h v₁ v₂ _
  page := fPage_comm h v₁ v₂ _

/-! ### the keys of the maps stay unique -/

theorem fFields_nodup (n : GoString) (vs : List GoString) (m : GoMap (List GoString))
    (h : m.keys.Nodup) : (fFields n vs m).keys.Nodup := by
  unfold fFields
  split
  · exact keys_set_nodup _ _ _ h
  · exact h

theorem fPage_nodup (n : GoString) (vs : List GoString) (m : GoMap PageVal)
    (h : m.keys.Nodup) : (fPage n vs m).keys.Nodup := by
  unfold fPage
  split
  · split
    · exact h
    · exact keys_set_nodup _ _ _ h
  · exact h

/-! ### NewSimpleURL -/

/-- the initial accumulator of `NewSimpleURL` -/
def su0 (path : GoString) : SimpleURL :=
  { fragments := parseFragments path, fields := [], filterLabel := [], filter := none,
    sortingRules := [], page := [], incl := [] }

theorem newSimpleURL_closed (path : GoString) (values : GoMap (List GoString)) (fd : FilterDec) :
    newSimpleURL path values fd =
      if values.all (fun p => stepOk fd p.1 p.2)
      then .ok (values.foldl (fun su p => stepApply fd su p.1 p.2) (su0 path)) else .err := by
  unfold newSimpleURL
  refine foldl_res_closed _ (fun p => stepOk fd p.1 p.2) (fun su p => stepApply fd su p.1 p.2)
    ?_ ?_ values (su0 path)
  · intro s x; exact simpleStep_eq fd s x.1 x.2
  · intro x; rfl

theorem names_pairwise_ne {β} (m : GoMap β) (h : m.keys.Nodup) :
    m.Pairwise (fun x y => x.1 ≠ y.1) := by
  unfold GoMap.keys at h
  rw [List.nodup_iff_pairwise_ne, List.pairwise_map] at h
  exact h

theorem newSimpleURL_isOk_perm (path : GoString) {values₁ values₂ : GoMap (List GoString)}
    (fd : FilterDec) (hp : values₁.Perm values₂) :
    (newSimpleURL path values₁ fd).isOk = (newSimpleURL path values₂ fd).isOk := by
  rw [newSimpleURL_closed, newSimpleURL_closed, hp.all_eq]
  split <;> rfl

/-- result of NewSimpleURL: order independent up to `SEq`; maps have unique keys -/
theorem newSimpleURL_perm (path : GoString) {values₁ values₂ : GoMap (List GoString)}
    (fd : FilterDec) (hp : values₁.Perm values₂) (hnd : values₁.keys.Nodup) :
    ResRel SEq (newSimpleURL path values₁ fd) (newSimpleURL path values₂ fd) := by
  rw [newSimpleURL_closed, newSimpleURL_closed, hp.all_eq]
  split
  · exact foldl_perm_rel (fun su (p : GoString × List GoString) => stepApply fd su p.1 p.2) SEq
      (fun x y => x.1 ≠ y.1) SEq.refl (fun _ _ _ => SEq.trans)
      (fun a b x h => stepApply_congr fd x.1 x.2 h)
      (fun x y h => h.symm)
      (fun a x y h => stepApply_comm fd a h x.2 y.2)
      hp (names_pairwise_ne values₁ hnd) (su0 path)
  · trivial

theorem newSimpleURL_nodup (path : GoString) (values : GoMap (List GoString)) (fd : FilterDec)
    {su : SimpleURL} (h : newSimpleURL path values fd = .ok su) :
    su.fields.keys.Nodup ∧ su.page.keys.Nodup := by
  rw [newSimpleURL_closed] at h
  split at h
  · cases h
    exact foldl_invariant (fun su (p : GoString × List GoString) => stepApply fd su p.1 p.2)
      (fun su => su.fields.keys.Nodup ∧ su.page.keys.Nodup)
      (fun b x hb => ⟨fFields_nodup _ _ _ hb.1, fPage_nodup _ _ _ hb.2⟩)
      values (su0 path) ⟨List.nodup_nil, List.nodup_nil⟩
  · cases h

#print axioms newSimpleURL_isOk_perm
#print axioms newSimpleURL_perm
#print axioms newSimpleURL_nodup

end Jsonapi.UrlL.Perm
