/-
The rendered text of a JSON tree is valid JSON denoting exactly that tree:
`Spec.parseJson t.render = some t` for every tree whose number literals match the JSON
number grammar (`parseJson_render`), hence rendering is injective on such trees
(`render_injective`); the integer literals the model emits match the grammar
(`printInt_numOk`).
-/
import Jsonapi.Model.JsonText
import Jsonapi.Spec.JsonParse
import Jsonapi.Proofs.RoundTripLemmas
namespace Jsonapi
namespace JsonL
open Spec

/-! ### generic list facts -/

theorem jt_dropWhile_of_all {α : Type} (p : α → Bool) (l : List α) (h : l.all p = true) :
    l.dropWhile p = [] := by
  induction l with
  | nil => rfl
  | cons a t ih =>
    simp only [List.all_cons, Bool.and_eq_true] at h
    rw [List.dropWhile_cons_of_pos h.1]
    exact ih h.2

theorem jt_all_of_dropWhile {α : Type} (p q : α → Bool) (hpq : ∀ a, p a = true → q a = true)
    (l : List α) (h : (l.dropWhile p).all q = true) : l.all q = true := by
  induction l with
  | nil => rfl
  | cons a t ih =>
    by_cases ha : p a = true
    · rw [List.dropWhile_cons_of_pos ha] at h
      simp only [List.all_cons, Bool.and_eq_true]
      exact ⟨hpq a ha, ih h⟩
    · rw [List.dropWhile_cons_of_neg ha] at h
      exact h

/-! ### numbers -/

theorem isNumByte_of_isDigit (c : UInt8) (h : isDigit c = true) : isNumByte c = true := by
  simp [isNumByte, h]

/-- the next input byte cannot extend a number token -/
def numStop : GoString → Bool
  | [] => true
  | c :: _ => !isNumByte c

theorem expPartOk_all (s : GoString) (h : expPartOk s = true) : s.all isNumByte = true := by
  cases s with
  | nil => rfl
  | cons e t =>
    simp only [expPartOk, Bool.and_eq_true, decide_eq_true_eq] at h
    obtain ⟨he, _, hd⟩ := h
    have hd' : (dropSign t).all isNumByte = true := by
      rw [List.all_eq_true] at hd ⊢
      exact fun a ha => isNumByte_of_isDigit a (hd a ha)
    have he' : isNumByte e = true := by
      rcases he with he | he <;> subst he <;> decide
    simp only [List.all_cons, Bool.and_eq_true]
    refine ⟨he', ?_⟩
    cases t with
    | nil => rfl
    | cons c u =>
      simp only [dropSign] at hd'
      by_cases hc : c = 43 ∨ c = 45
      · rw [if_pos hc] at hd'
        simp only [List.all_cons, Bool.and_eq_true]
        refine ⟨?_, hd'⟩
        rcases hc with hc | hc <;> subst hc <;> decide
      · rw [if_neg hc] at hd'
        exact hd'

theorem fracPartOk_all (s : GoString) (h : fracPartOk s = true) : s.all isNumByte = true := by
  cases s with
  | nil => rfl
  | cons c t =>
    simp only [fracPartOk] at h
    by_cases hc : c = 46
    · rw [if_pos hc] at h
      simp only [Bool.and_eq_true] at h
      simp only [List.all_cons, Bool.and_eq_true]
      refine ⟨by subst hc; decide, ?_⟩
      exact jt_all_of_dropWhile isDigit isNumByte isNumByte_of_isDigit t (expPartOk_all _ h.2)
    · rw [if_neg hc] at h
      exact expPartOk_all _ h

theorem intPartOk_all (s : GoString) (h : intPartOk s = true) : s.all isNumByte = true := by
  cases s with
  | nil => rfl
  | cons c t =>
    simp only [intPartOk] at h
    simp only [List.all_cons, Bool.and_eq_true]
    by_cases hc : c = 48
    · rw [if_pos hc] at h
      exact ⟨by subst hc; decide, fracPartOk_all _ h⟩
    · rw [if_neg hc] at h
      by_cases hd : isDigit c = true
      · rw [if_pos hd] at h
        exact ⟨isNumByte_of_isDigit c hd,
          jt_all_of_dropWhile isDigit isNumByte isNumByte_of_isDigit t (fracPartOk_all _ h)⟩
      · rw [if_neg hd] at h
        exact absurd h (by simp)

theorem numOk_all (s : GoString) (h : numOk s = true) : s.all isNumByte = true := by
  cases s with
  | nil => rfl
  | cons c t =>
    simp only [numOk] at h
    by_cases hc : c = 45
    · rw [if_pos hc] at h
      simp only [List.all_cons, Bool.and_eq_true]
      exact ⟨by subst hc; decide, intPartOk_all _ h⟩
    · rw [if_neg hc] at h
      exact intPartOk_all _ h

theorem numOk_ne_nil (s : GoString) (h : numOk s = true) : s ≠ [] := by
  intro e; subst e; simp [numOk] at h

/-- a number token followed by a byte that cannot extend it is cut off exactly -/
theorem span_numOk (lit r : GoString) (h : numOk lit = true) (hr : numStop r = true) :
    (lit ++ r).takeWhile isNumByte = lit ∧ (lit ++ r).dropWhile isNumByte = r := by
  have hall : ∀ a ∈ lit, isNumByte a = true := by
    have := numOk_all lit h
    rwa [List.all_eq_true] at this
  rw [List.takeWhile_append_of_pos hall, List.dropWhile_append_of_pos hall]
  cases r with
  | nil => simp
  | cons c t =>
    have hc : ¬ isNumByte c = true := by simpa [numStop] using hr
    rw [List.takeWhile_cons_of_neg hc, List.dropWhile_cons_of_neg hc]
    simp

/-! ### the integer literals of the model -/

theorem digitChar_eq_48 (d : Nat) (h : digitChar d = 48) : d % 10 = 0 := by
  have h1 := RtL.digitChar_toNat d
  rw [h] at h1
  have h2 : (48 : UInt8).toNat = 48 := rfl
  omega

/-- no leading zero -/
theorem printNat_head_ne_zero (n : Nat) (hn : n ≠ 0) :
    ∃ c r, printNat n = c :: r ∧ c ≠ 48 := by
  induction n using Nat.strongRecOn with
  | _ n ih =>
    by_cases h : n < 10
    · rw [RtL.printNat_lt n h]
      refine ⟨_, _, rfl, ?_⟩
      intro e
      have := digitChar_eq_48 n e
      omega
    · rw [RtL.printNat_ge n h]
      obtain ⟨c, r, hc, hne⟩ := ih (n / 10) (by omega) (by omega)
      rw [hc]
      exact ⟨c, r ++ [digitChar (n % 10)], rfl, hne⟩

theorem intPartOk_printNat (n : Nat) : intPartOk (printNat n) = true := by
  by_cases hn : n = 0
  · subst hn
    rw [RtL.printNat_lt 0 (by omega)]
    decide
  · obtain ⟨c, r, hc, hne⟩ := printNat_head_ne_zero n hn
    have hall := RtL.printNat_all_digit n
    rw [hc] at hall ⊢
    simp only [List.all_cons, Bool.and_eq_true] at hall
    simp only [intPartOk, if_neg hne, hall.1, if_true]
    rw [jt_dropWhile_of_all isDigit r hall.2]
    rfl

theorem printNat_numOk (n : Nat) : numOk (printNat n) = true := by
  obtain ⟨c, r, hc, hd⟩ := RtL.printNat_head n
  have h := intPartOk_printNat n
  rw [hc] at h ⊢
  have h45 : c ≠ 45 := (RtL.isDigit_ne hd).2.1
  simp only [numOk, if_neg h45]
  exact h

theorem printInt_numOk (i : Int) : numOk (printInt i) = true := by
  unfold printInt
  by_cases h : i < 0
  · rw [if_pos h]
    simp only [numOk, if_true]
    exact intPartOk_printNat _
  · rw [if_neg h]
    exact printNat_numOk _

/-! ### strings -/

theorem jsonHexVal_hexDigit_lt : ∀ n, n < 16 → jsonHexVal (jsonHexDigit n) = some n := by decide

theorem jsonHexVal_hexDigit (n : Nat) : jsonHexVal (jsonHexDigit n) = some (n % 16) := by
  have h : jsonHexDigit n = jsonHexDigit (n % 16) := by simp [jsonHexDigit]
  rw [h]
  exact jsonHexVal_hexDigit_lt (n % 16) (Nat.mod_lt _ (by omega))

theorem parseStrBody_plain (b : UInt8) (rest : GoString) (h1 : b ≠ 34) (h2 : b ≠ 92)
    (h3 : ¬ b < 32) : parseStrBody (b :: rest) = consStr [b] (parseStrBody rest) := by
  rw [parseStrBody.eq_def]
  simp [h1, h2, h3]

theorem parseStrBody_simple (e c : UInt8) (rest : GoString) (h : jsonUnescape e = some c)
    (hu : e ≠ 117) :
    parseStrBody (92 :: e :: rest) = consStr [c] (parseStrBody rest) := by
  rw [parseStrBody.eq_def]
  simp [h, hu]

theorem parseStrBody_u00 (b : UInt8) (rest : GoString) (hb : b.toNat < 128) :
    parseStrBody (escU00 b ++ rest) = consStr [b] (parseStrBody rest) := by
  have h0 : jsonHexVal 48 = some 0 := by decide
  have hcp : ((0 * 16 + 0) * 16 + b.toNat / 16 % 16) * 16 + b.toNat % 16 = b.toNat := by omega
  simp only [escU00, List.cons_append, List.nil_append, parseStrBody]
  simp only [h0, jsonHexVal_hexDigit, hcp]
  have hs : ¬ (0xD800 ≤ b.toNat ∧ b.toNat < 0xE000) := by omega
  have hlt : b.toNat < 0x80 := hb
  simp [hs, utf8Enc, hlt]

theorem parseStrBody_escByte (b : UInt8) (rest : GoString) :
    parseStrBody (escByte b ++ rest) = consStr [b] (parseStrBody rest) := by
  unfold escByte
  by_cases h1 : b = 34
  · subst h1; exact parseStrBody_simple 34 34 rest (by decide) (by decide)
  rw [if_neg h1]
  by_cases h2 : b = 92
  · subst h2; exact parseStrBody_simple 92 92 rest (by decide) (by decide)
  rw [if_neg h2]
  by_cases h3 : b = 8
  · subst h3; exact parseStrBody_simple 98 8 rest (by decide) (by decide)
  rw [if_neg h3]
  by_cases h4 : b = 12
  · subst h4; exact parseStrBody_simple 102 12 rest (by decide) (by decide)
  rw [if_neg h4]
  by_cases h5 : b = 10
  · subst h5; exact parseStrBody_simple 110 10 rest (by decide) (by decide)
  rw [if_neg h5]
  by_cases h6 : b = 13
  · subst h6; exact parseStrBody_simple 114 13 rest (by decide) (by decide)
  rw [if_neg h6]
  by_cases h7 : b = 9
  · subst h7; exact parseStrBody_simple 116 9 rest (by decide) (by decide)
  rw [if_neg h7]
  by_cases h8 : b < 32 ∨ b = 60 ∨ b = 62 ∨ b = 38
  · rw [if_pos h8]
    apply parseStrBody_u00
    rcases h8 with h | h | h | h
    · have : b.toNat < (32 : UInt8).toNat := UInt8.lt_iff_toNat_lt.mp h
      have h32 : (32 : UInt8).toNat = 32 := rfl
      omega
    · subst h; decide
    · subst h; decide
    · subst h; decide
  · rw [if_neg h8]
    exact parseStrBody_plain b rest h1 h2 (fun h => h8 (Or.inl h))

theorem parseStrBody_2028 (rest : GoString) :
    parseStrBody ([92, 117, 50, 48, 50, 56] ++ rest)
      = consStr [0xE2, 0x80, 0xA8] (parseStrBody rest) := by
  have h0 : jsonHexVal 48 = some 0 := by decide
  have h2 : jsonHexVal 50 = some 2 := by decide
  have h8 : jsonHexVal 56 = some 8 := by decide
  simp only [List.cons_append, List.nil_append, parseStrBody]
  simp only [h0, h2, h8]
  rfl

theorem parseStrBody_2029 (rest : GoString) :
    parseStrBody ([92, 117, 50, 48, 50, 57] ++ rest)
      = consStr [0xE2, 0x80, 0xA9] (parseStrBody rest) := by
  have h0 : jsonHexVal 48 = some 0 := by decide
  have h2 : jsonHexVal 50 = some 2 := by decide
  have h9 : jsonHexVal 57 = some 9 := by decide
  simp only [List.cons_append, List.nil_append, parseStrBody]
  simp only [h0, h2, h9]
  rfl

/-- string round trip: the rendered characters followed by the closing quote parse back to
the string, leaving what follows the quote -/
theorem parseStrBody_render (s r : GoString) :
    parseStrBody (renderStrBody s ++ 34 :: r) = some (s, r) := by
  fun_induction renderStrBody s with
  | case1 => rw [parseStrBody.eq_def]; simp
  | case2 b c d rest h ih =>
    obtain ⟨hb, hc, hd⟩ := h
    subst hb; subst hc; subst hd
    rw [List.append_assoc, parseStrBody_2028, ih]
    rfl
  | case3 b c d rest _ h ih =>
    obtain ⟨hb, hc, hd⟩ := h
    subst hb; subst hc; subst hd
    rw [List.append_assoc, parseStrBody_2029, ih]
    rfl
  | case4 b c d rest _ _ ih =>
    rw [List.append_assoc, parseStrBody_escByte, ih]
    rfl
  | case5 b rest _ ih =>
    rw [List.append_assoc, parseStrBody_escByte, ih]
    rfl

/-! ### one step of the value parser -/

theorem stripPrefix_append (p r : GoString) : stripPrefix p (p ++ r) = some r := by
  induction p with
  | nil => cases r <;> rfl
  | cons a p ih => simp [stripPrefix, ih]

theorem parseValue_num (f : Nat) (lit r : GoString) (h : numOk lit = true)
    (hr : numStop r = true) : parseValue (f + 1) (lit ++ r) = some (.num lit, r) := by
  cases lit with
  | nil => exact absurd rfl (numOk_ne_nil _ h)
  | cons c t =>
    have hs := span_numOk (c :: t) r h hr
    have hc : isNumByte c = true := by
      have := numOk_all _ h
      simp only [List.all_cons, Bool.and_eq_true] at this
      exact this.1
    simp only [List.cons_append] at hs ⊢
    rw [parseValue.eq_def]
    simp only [hc, if_true, hs.1, hs.2, h]

theorem parseValue_null (f : Nat) (r : GoString) :
    parseValue (f + 1) ([110, 117, 108, 108] ++ r) = some (.null, r) := by
  have h : isNumByte 110 = false := by decide
  rw [parseValue.eq_def]
  simp [h, stripPrefix]

theorem parseValue_true (f : Nat) (r : GoString) :
    parseValue (f + 1) ([116, 114, 117, 101] ++ r) = some (.bool true, r) := by
  have h : isNumByte 116 = false := by decide
  rw [parseValue.eq_def]
  simp [h, stripPrefix]

theorem parseValue_false (f : Nat) (r : GoString) :
    parseValue (f + 1) ([102, 97, 108, 115, 101] ++ r) = some (.bool false, r) := by
  have h : isNumByte 102 = false := by decide
  rw [parseValue.eq_def]
  simp [h, stripPrefix]

theorem parseValue_str (f : Nat) (s r : GoString) :
    parseValue (f + 1) (renderStr s ++ r) = some (.str s, r) := by
  have h : isNumByte 34 = false := by decide
  have hb := parseStrBody_render s r
  rw [parseValue.eq_def]
  simp [renderStr, h, hb]

theorem parseValue_arr_nil (f : Nat) (r : GoString) :
    parseValue (f + 1) (91 :: 93 :: r) = some (.arr [], r) := by
  have h : isNumByte 91 = false := by decide
  rw [parseValue.eq_def]
  simp [h]

theorem parseValue_arr_cons (f : Nat) (s : GoString) (hs : ∃ d t, s = d :: t ∧ d ≠ 93) :
    parseValue (f + 1) (91 :: s) = (parseElems f s).map (fun p => (Json.arr p.1, p.2)) := by
  obtain ⟨d, t, rfl, hd⟩ := hs
  have h : isNumByte 91 = false := by decide
  rw [parseValue.eq_def]
  simp [h, hd]

theorem parseValue_obj_nil (f : Nat) (r : GoString) :
    parseValue (f + 1) (123 :: 125 :: r) = some (.obj [], r) := by
  have h : isNumByte 123 = false := by decide
  rw [parseValue.eq_def]
  simp [h]

theorem parseValue_obj_cons (f : Nat) (s : GoString) (hs : ∃ d t, s = d :: t ∧ d ≠ 125) :
    parseValue (f + 1) (123 :: s) = (parseMembers f s).map (fun p => (Json.obj p.1, p.2)) := by
  obtain ⟨d, t, rfl, hd⟩ := hs
  have h : isNumByte 123 = false := by decide
  rw [parseValue.eq_def]
  simp [h, hd]

theorem parseElems_last (f : Nat) (s : GoString) (v : Json) (r : GoString)
    (h : parseValue f s = some (v, 93 :: r)) : parseElems (f + 1) s = some ([v], r) := by
  rw [parseElems.eq_def]
  simp [h]

theorem parseElems_more (f : Nat) (s : GoString) (v : Json) (r : GoString) (vs : List Json)
    (r' : GoString) (h : parseValue f s = some (v, 44 :: r))
    (h2 : parseElems f r = some (vs, r')) : parseElems (f + 1) s = some (v :: vs, r') := by
  rw [parseElems.eq_def]
  simp [h, h2]

theorem parseMembers_last (f : Nat) (s1 k s3 : GoString) (v : Json) (r : GoString)
    (hk : parseStrBody s1 = some (k, 58 :: s3)) (hv : parseValue f s3 = some (v, 125 :: r)) :
    parseMembers (f + 1) (34 :: s1) = some ([(k, v)], r) := by
  rw [parseMembers.eq_def]
  simp [hk, hv]

theorem parseMembers_more (f : Nat) (s1 k s3 : GoString) (v : Json) (r : GoString)
    (ms : List (GoString × Json)) (r' : GoString)
    (hk : parseStrBody s1 = some (k, 58 :: s3)) (hv : parseValue f s3 = some (v, 44 :: r))
    (h2 : parseMembers f r = some (ms, r')) :
    parseMembers (f + 1) (34 :: s1) = some ((k, v) :: ms, r') := by
  rw [parseMembers.eq_def]
  simp [hk, hv, h2]

/-! ### the fuel a tree needs -/

mutual
/-- nesting of parser calls needed for the rendered text of a tree -/
def need : Json → Nat
  | .arr l => 1 + needList l
  | .obj ms => 1 + needMembers ms
  | _ => 1
def needList : List Json → Nat
  | [] => 0
  | v :: vs => 1 + need v + needList vs
def needMembers : List (GoString × Json) → Nat
  | [] => 0
  | (_, v) :: ms => 1 + need v + needMembers ms
end

theorem need_pos (t : Json) : 1 ≤ need t := by
  cases t <;> simp [need] <;> omega

theorem needList_cons (v : Json) (vs : List Json) :
    needList (v :: vs) = 1 + need v + needList vs := by rw [needList]

theorem needMembers_cons (k : GoString) (v : Json) (ms : List (GoString × Json)) :
    needMembers ((k, v) :: ms) = 1 + need v + needMembers ms := by rw [needMembers]

theorem renderList_cons (v : Json) (vs : List Json) :
    Json.renderList (v :: vs) = v.render ++ (sepBefore vs ++ Json.renderList vs) := by
  rw [Json.renderList]

theorem renderMembers_cons (k : GoString) (v : Json) (ms : List (GoString × Json)) :
    Json.renderMembers ((k, v) :: ms)
      = renderStr k ++ (58 :: (v.render ++ (sepBefore ms ++ Json.renderMembers ms))) := by
  rw [Json.renderMembers]

mutual
theorem need_le (t : Json) : need t ≤ 2 * t.render.length + 1 :=
  match t with
  | .null => by simp [need]
  | .bool _ => by simp [need]
  | .num _ => by simp [need]
  | .str _ => by simp [need]
  | .arr l => by
    have := needList_le l
    simp only [need, Json.render, List.length_cons, List.length_append, List.length_nil]
    omega
  | .obj ms => by
    have := needMembers_le ms
    simp only [need, Json.render, List.length_cons, List.length_append, List.length_nil]
    omega
theorem needList_le (l : List Json) : needList l ≤ 2 * (Json.renderList l).length + 2 :=
  match l with
  | [] => by simp [needList]
  | v :: vs => by
    have h1 := need_le v
    have h2 := needList_le vs
    rw [needList_cons, renderList_cons]
    cases vs with
    | nil =>
      simp only [needList, Json.renderList, sepBefore, List.length_append, List.length_nil]
      omega
    | cons w ws =>
      simp only [sepBefore, List.length_append, List.length_cons, List.length_nil]
      omega
theorem needMembers_le (ms : List (GoString × Json)) :
    needMembers ms ≤ 2 * (Json.renderMembers ms).length + 2 :=
  match ms with
  | [] => by simp [needMembers]
  | (k, v) :: ms => by
    have h1 := need_le v
    have h2 := needMembers_le ms
    rw [needMembers_cons, renderMembers_cons]
    cases ms with
    | nil =>
      simp only [needMembers, Json.renderMembers, sepBefore, List.length_append,
        List.length_cons, List.length_nil]
      omega
    | cons m ms' =>
      simp only [sepBefore, List.length_append, List.length_cons, List.length_nil]
      omega
end

/-! ### the tree round trip -/

/-- the first byte of a rendered value is not a closing bracket -/
theorem render_head (t : Json) (h : t.numsOk = true) :
    ∃ c u, t.render = c :: u ∧ c ≠ 93 := by
  cases t with
  | null => exact ⟨_, _, rfl, by decide⟩
  | bool b => cases b <;> exact ⟨_, _, rfl, by decide⟩
  | num lit =>
    simp only [Json.numsOk] at h
    cases lit with
    | nil => exact absurd rfl (numOk_ne_nil _ h)
    | cons c u =>
      refine ⟨c, u, rfl, ?_⟩
      have := numOk_all _ h
      simp only [List.all_cons, Bool.and_eq_true] at this
      intro e
      rw [e] at this
      exact absurd this.1 (by decide)
  | str s => exact ⟨_, _, rfl, by decide⟩
  | arr l => exact ⟨_, _, rfl, by decide⟩
  | obj ms => exact ⟨_, _, rfl, by decide⟩

theorem numStop_93 (r : GoString) : numStop (93 :: r) = true := rfl
theorem numStop_44 (r : GoString) : numStop (44 :: r) = true := rfl
theorem numStop_125 (r : GoString) : numStop (125 :: r) = true := rfl

mutual
theorem parseValue_render (t : Json) (h : t.numsOk = true) (r : GoString)
    (hr : numStop r = true) (f : Nat) (hf : need t ≤ f) :
    parseValue f (t.render ++ r) = some (t, r) :=
  match t with
  | .null => by
    obtain ⟨f, rfl⟩ : ∃ g, f = g + 1 := ⟨f - 1, by simp [need] at hf; omega⟩
    exact parseValue_null f r
  | .bool true => by
    obtain ⟨f, rfl⟩ : ∃ g, f = g + 1 := ⟨f - 1, by simp [need] at hf; omega⟩
    exact parseValue_true f r
  | .bool false => by
    obtain ⟨f, rfl⟩ : ∃ g, f = g + 1 := ⟨f - 1, by simp [need] at hf; omega⟩
    exact parseValue_false f r
  | .num lit => by
    obtain ⟨f, rfl⟩ : ∃ g, f = g + 1 := ⟨f - 1, by simp [need] at hf; omega⟩
    simp only [Json.numsOk] at h
    exact parseValue_num f lit r h hr
  | .str s => by
    obtain ⟨f, rfl⟩ : ∃ g, f = g + 1 := ⟨f - 1, by simp [need] at hf; omega⟩
    exact parseValue_str f s r
  | .arr l => by
    obtain ⟨f, rfl⟩ : ∃ g, f = g + 1 := ⟨f - 1, by simp [need] at hf; omega⟩
    simp only [Json.numsOk] at h
    have hf' : needList l ≤ f := by simp only [need] at hf; omega
    have ih := parseElems_render l h r f hf'
    cases l with
    | nil => exact parseValue_arr_nil f r
    | cons v vs =>
      have e : (Json.arr (v :: vs)).render ++ r = 91 :: (Json.renderList (v :: vs) ++ 93 :: r) := by
        simp [Json.render]
      rw [e, parseValue_arr_cons, ih (by simp)]
      · rfl
      · simp only [Json.numsOkList, Bool.and_eq_true] at h
        obtain ⟨c, u, hc, hne⟩ := render_head v h.1
        exact ⟨c, u ++ (sepBefore vs ++ Json.renderList vs) ++ 93 :: r,
          by simp [renderList_cons, hc], hne⟩
  | .obj ms => by
    obtain ⟨f, rfl⟩ : ∃ g, f = g + 1 := ⟨f - 1, by simp [need] at hf; omega⟩
    simp only [Json.numsOk] at h
    have hf' : needMembers ms ≤ f := by simp only [need] at hf; omega
    have ih := parseMembers_render ms h r f hf'
    cases ms with
    | nil => exact parseValue_obj_nil f r
    | cons m ms =>
      have e : (Json.obj (m :: ms)).render ++ r
          = 123 :: (Json.renderMembers (m :: ms) ++ 125 :: r) := by
        simp [Json.render]
      rw [e, parseValue_obj_cons, ih (by simp)]
      · rfl
      · obtain ⟨k, v⟩ := m
        exact ⟨34, renderStrBody k ++ [34] ++
            58 :: (v.render ++ (sepBefore ms ++ Json.renderMembers ms)) ++ 125 :: r,
          by simp [renderMembers_cons, renderStr], by decide⟩
theorem parseElems_render (l : List Json) (h : Json.numsOkList l = true) (r : GoString)
    (f : Nat) (hf : needList l ≤ f) (hne : l ≠ []) :
    parseElems f (Json.renderList l ++ 93 :: r) = some (l, r) :=
  match l with
  | [] => absurd rfl hne
  | v :: vs => by
    simp only [Json.numsOkList, Bool.and_eq_true] at h
    obtain ⟨f, rfl⟩ : ∃ g, f = g + 1 := ⟨f - 1, by simp [needList] at hf; omega⟩
    have hfv : need v ≤ f := by simp only [needList] at hf; omega
    have hfs : needList vs ≤ f := by simp only [needList] at hf; omega
    have ih := parseElems_render vs h.2 r f hfs
    cases vs with
    | nil =>
      have e : Json.renderList [v] ++ 93 :: r = v.render ++ 93 :: r := by
        simp [Json.renderList, sepBefore]
      rw [e]
      exact parseElems_last f _ v r (parseValue_render v h.1 _ (numStop_93 r) f hfv)
    | cons w ws =>
      have e : Json.renderList (v :: w :: ws) ++ 93 :: r
          = v.render ++ 44 :: (Json.renderList (w :: ws) ++ 93 :: r) := by
        simp [Json.renderList, sepBefore]
      rw [e]
      exact parseElems_more f _ v _ (w :: ws) r
        (parseValue_render v h.1 _ (numStop_44 _) f hfv) (ih (by simp))
theorem parseMembers_render (ms : List (GoString × Json)) (h : Json.numsOkMembers ms = true)
    (r : GoString) (f : Nat) (hf : needMembers ms ≤ f) (hne : ms ≠ []) :
    parseMembers f (Json.renderMembers ms ++ 125 :: r) = some (ms, r) :=
  match ms with
  | [] => absurd rfl hne
  | (k, v) :: ms => by
    simp only [Json.numsOkMembers, Bool.and_eq_true] at h
    obtain ⟨f, rfl⟩ : ∃ g, f = g + 1 := ⟨f - 1, by simp [needMembers] at hf; omega⟩
    have hfv : need v ≤ f := by simp only [needMembers] at hf; omega
    have hfs : needMembers ms ≤ f := by simp only [needMembers] at hf; omega
    have ih := parseMembers_render ms h.2 r f hfs
    cases ms with
    | nil =>
      have e : Json.renderMembers [(k, v)] ++ 125 :: r
          = 34 :: (renderStrBody k ++ 34 :: 58 :: (v.render ++ 125 :: r)) := by
        simp [Json.renderMembers, sepBefore, renderStr]
      rw [e]
      exact parseMembers_last f _ k _ v r (parseStrBody_render k _)
        (parseValue_render v h.1 _ (numStop_125 r) f hfv)
    | cons m ms' =>
      have e : Json.renderMembers ((k, v) :: m :: ms') ++ 125 :: r
          = 34 :: (renderStrBody k ++ 34 :: 58 ::
              (v.render ++ 44 :: (Json.renderMembers (m :: ms') ++ 125 :: r))) := by
        simp [Json.renderMembers, sepBefore, renderStr]
      rw [e]
      exact parseMembers_more f _ k _ v _ (m :: ms') r (parseStrBody_render k _)
        (parseValue_render v h.1 _ (numStop_44 _) f hfv) (ih (by simp))
end

/-- MAIN THEOREM: the rendered text of a tree parses, as strict compact JSON, to the tree -/
theorem parseJson_render (t : Json) (h : t.numsOk) : Spec.parseJson t.render = some t := by
  have hf : need t ≤ 2 * t.render.length + 2 := by have := need_le t; omega
  have hp := parseValue_render t h [] rfl _ hf
  rw [List.append_nil] at hp
  simp [parseJson, hp]

/-- two trees with the same rendered text are equal -/
theorem render_injective (a b : Json) (ha : a.numsOk) (hb : b.numsOk)
    (h : a.render = b.render) : a = b := by
  have h1 := parseJson_render a ha
  have h2 := parseJson_render b hb
  rw [h, h2] at h1
  exact (Option.some.inj h1).symm

/-! ### non-vacuity -/

/-- every constructor; in the key: a quote, a backslash, a newline, the control byte 01, `<`,
U+2028 (E2 80 A8), and the two-byte character U+00E9 (C3 A9); in the string element: U+2029
followed by a truncated E2 80 (copied verbatim) -/
def jtSample : Json :=
  .obj [([97, 34, 92, 10, 1, 60, 0xE2, 0x80, 0xA8, 0xC3, 0xA9],
          .arr [.null, .bool true, .bool false, .num [45, 49, 46, 53, 101, 43, 50],
                .str [0xE2, 0x80, 0xA9, 0xE2, 0x80], .arr [], .obj []]),
        ([], .num [48])]

/-- the rendered bytes, spelled out: the quote and the backslash of the key get a backslash
(92 34, 92 92), the newline is 92 110, the control byte 01 is the six bytes 92 117 48 48 48 49,
`<` is 92 117 48 48 51 99 (backslash u 0 0 3 c), U+2028 is 92 117 50 48 50 56 (backslash u
2 0 2 8), C3 A9 is copied (195 169), U+2029 is 92 117 50 48 50 57 -/
example : jtSample.render =
    [123, 34, 97, 92, 34, 92, 92, 92, 110, 92, 117, 48, 48, 48, 49, 92, 117, 48, 48, 51, 99,
     92, 117, 50, 48, 50, 56, 195, 169, 34, 58, 91, 110, 117, 108, 108, 44, 116, 114, 117, 101,
     44, 102, 97, 108, 115, 101, 44, 45, 49, 46, 53, 101, 43, 50, 44, 34, 92, 117, 50, 48, 50,
     57, 226, 128, 34, 44, 91, 93, 44, 123, 125, 93, 44, 34, 34, 58, 48, 125] := by decide

/-- the parser, evaluated by the kernel on that text, returns the tree -/
example : Spec.parseJson jtSample.render = some jtSample := rfl

example : jtSample.numsOk = true := by decide

example : Spec.parseJson jtSample.render = some jtSample := parseJson_render jtSample (by decide)

/-- the other forms the parser accepts and the renderer never writes: `\/`, upper-case hex,
a `\u` escape of a two-byte and of a three-byte character, `E` exponents -/
example : Spec.parseJson [91, 34, 92, 47, 92, 117, 48, 48, 69, 57, 92, 117, 50, 48, 97, 99, 34,
      44, 45, 48, 46, 53, 69, 45, 55, 93]
    = some (.arr [.str [47, 0xC3, 0xA9, 0xE2, 0x82, 0xAC], .num [45, 48, 46, 53, 69, 45, 55]]) :=
  rfl

/-- `(parseJson s).isNone` for malformed texts -/
def jtRejects (s : GoString) : Bool := (Spec.parseJson s).isNone

example : jtRejects [123, 34, 97, 34, 58, 125] = true := by decide          -- {"a":}
example : jtRejects [91, 49, 44, 93] = true := by decide                     -- [1,]
example : jtRejects [48, 49] = true := by decide                             -- 01
example : jtRejects [34, 97] = true := by decide                             -- "a
example : jtRejects [110, 117, 108] = true := by decide                      -- nul
example : jtRejects [110, 117, 108, 108, 49] = true := by decide             -- null1
example : jtRejects [91, 49, 93, 93] = true := by decide                     -- [1]]
example : jtRejects [49, 32] = true := by decide                             -- 1 followed by a space
example : jtRejects [91, 49, 44, 32, 50, 93] = true := by decide             -- [1, 2]
example : jtRejects [49, 46] = true := by decide                             -- 1.
example : jtRejects [49, 101] = true := by decide                            -- 1e
example : jtRejects [45] = true := by decide                                 -- -
example : jtRejects [43, 49] = true := by decide                             -- +1
example : jtRejects [] = true := by decide                                   -- empty input
example : jtRejects [34, 1, 34] = true := by decide                          -- raw control byte
example : jtRejects [34, 92, 120, 34] = true := by decide                    -- "\x"
example : jtRejects [34, 92, 117, 48, 48, 103, 48, 34] = true := by decide   -- "\u00g0"
example : jtRejects [34, 92, 117, 100, 56, 48, 48, 34] = true := by decide   -- "\ud800"
example : jtRejects [123, 49, 58, 49, 125] = true := by decide               -- {1:1}
example : jtRejects [123, 34, 97, 34, 58, 49, 44, 125] = true := by decide   -- {"a":1,}
example : jtRejects [91, 93] = false := by decide                            -- []
example : jtRejects [123, 125] = false := by decide                          -- {}
example : jtRejects [45, 48] = false := by decide                            -- -0

example : Spec.numOk [48, 49] = false := by decide
example : Spec.numOk [45, 49, 46, 53, 101, 43, 50] = true := by decide

/-- rendering distinguishes the trees the parser distinguishes: a number and the string of
its digits -/
example : (Json.num [49]).render ≠ (Json.str [49]).render := by decide

#print axioms parseStrBody_render
#print axioms parseJson_render
#print axioms render_injective
#print axioms printInt_numOk

end JsonL
end Jsonapi
