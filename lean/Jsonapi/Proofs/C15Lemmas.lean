/-
Helper lemmas for C15's order-independence theorem: `Schema.Check` computed over
two schemas that differ only in the iteration order of their attribute and
relationship maps.
-/
import Jsonapi.Proofs.SchemaLemmas
namespace Jsonapi.C15L
open Jsonapi Jsonapi.Schema

/-- Two types that are the same up to the iteration order of their maps. -/
def TypRel (t t' : Typ) : Prop :=
  t.name = t'.name ∧ t.attrs.Perm t'.attrs ∧ t.rels.Perm t'.rels

theorem TypRel.refl (t : Typ) : TypRel t t := ⟨rfl, List.Perm.refl _, List.Perm.refl _⟩

/-- (a) `GetType` returns corresponding types on corresponding schemas. -/
theorem getType_rel {ts ts' : List Typ} (h : Forall2 TypRel ts ts') (n : GoString) :
    TypRel (Schema.getType { types := ts } n) (Schema.getType { types := ts' } n) := by
  induction h with
  | nil => exact TypRel.refl _
  | @cons a b l₁ l₂ hab _ ih =>
    unfold Schema.getType at ih ⊢
    simp only [List.find?_cons]
    by_cases hn : a.name = n
    · have hb : b.name = n := hab.1 ▸ hn
      simp only [hn, hb, decide_true]
      exact hab
    · have hb : ¬ b.name = n := fun e => hn (hab.1.trans e)
      simp only [hn, hb, decide_false]
      exact ih

/-- (b) the first test agrees. -/
theorem checkTarget_eq {σ σ' : Schema} (h : Forall2 TypRel σ.types σ'.types) (r : Rel) :
    checkTarget σ r = checkTarget σ' r := by
  have hg := getType_rel h r.toType
  unfold checkTarget
  rw [show (σ.getType r.toType).name = (σ'.getType r.toType).name from hg.1]

/-- (b) the second test agrees for corresponding types. -/
theorem checkInverse_eq {σ σ' : Schema} (h : Forall2 TypRel σ.types σ'.types)
    {t t' : Typ} (ht : t.name = t'.name) (r : Rel) :
    checkInverse σ t r = checkInverse σ' t' r := by
  have hg := getType_rel h r.toType
  have hp : (σ.getType r.toType).rels.Perm (σ'.getType r.toType).rels := hg.2.2
  unfold checkInverse
  rw [hp.any_eq, ht]

theorem checkRel_eq {σ σ' : Schema} (h : Forall2 TypRel σ.types σ'.types)
    {t t' : Typ} (ht : t.name = t'.name) (r : Rel) :
    checkRel σ t r = checkRel σ' t' r := by
  unfold checkRel
  rw [checkTarget_eq h r, checkInverse_eq h ht r]

/-- (c) `flatMap` over related lists whose images are permutations of each other. -/
theorem flatMap_perm_of_forall2 {α β γ : Type} {R : α → β → Prop}
    {f : α → List γ} {g : β → List γ} {l : List α} {l' : List β}
    (h : Forall2 R l l') (hfg : ∀ a b, R a b → (f a).Perm (g b)) :
    (l.flatMap f).Perm (l'.flatMap g) := by
  induction h with
  | nil => exact List.Perm.refl _
  | @cons a b l₁ l₂ hab _ ih =>
    simp only [List.flatMap_cons]
    exact List.Perm.append (hfg a b hab) ih

theorem check_perm {σ σ' : Schema} (h : Forall2 TypRel σ.types σ'.types) :
    (check σ).Perm (check σ') := by
  unfold check
  apply flatMap_perm_of_forall2 h
  intro t t' htt
  have hf : (fun p : GoString × Rel =>
        let n := checkRel σ t p.2
        if n = 0 then none else some (t.name, p.2.fromName, n)) =
      (fun p : GoString × Rel =>
        let n := checkRel σ' t' p.2
        if n = 0 then none else some (t'.name, p.2.fromName, n)) := by
    funext p
    simp only [checkRel_eq h htt.1 p.2, htt.1]
  rw [hf]
  exact List.Perm.filterMap _ htt.2.2

/-- (d) the error count is a sum, hence invariant under permutation. -/
theorem sum_foldl_perm {l l' : List (GoString × GoString × Nat)} (h : l.Perm l') :
    l.foldl (fun acc e => acc + e.2.2) 0 = l'.foldl (fun acc e => acc + e.2.2) 0 :=
  h.foldl_eq' (fun _ _ _ _ _ => by omega) 0

end Jsonapi.C15L
