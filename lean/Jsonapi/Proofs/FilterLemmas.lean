/- Helper lemmas for C10 (filter evaluation agrees with its logical reading). -/
import Jsonapi.Spec.Filter
namespace Jsonapi
open Spec

/-! ### `evalCmp` on each of the six operators -/

theorem evalCmp_eq (v c : SVal) : evalCmp Op.eq v c = valEq v c := rfl
theorem evalCmp_ne (v c : SVal) : evalCmp Op.ne v c = !valEq v c := rfl
theorem evalCmp_lt (v c : SVal) : evalCmp Op.lt v c = valLt v c := rfl
theorem evalCmp_le (v c : SVal) :
    evalCmp Op.le v c = (valLt v c || (valOrdered v c && valEq v c)) := rfl
theorem evalCmp_gt (v c : SVal) : evalCmp Op.gt v c = valLt c v := rfl
theorem evalCmp_ge (v c : SVal) :
    evalCmp Op.ge v c = (valLt c v || (valOrdered v c && valEq v c)) := rfl

/-- With an order between the two values, `evalCmp` is the six-way switch of the Go helpers. -/
theorem evalCmp_cmpOps (op : GoString) (v c : SVal) (e l g : Bool)
    (he : valEq v c = e) (hl : valLt v c = l) (hg : valLt c v = g)
    (ho : valOrdered v c = true) : evalCmp op v c = cmpOps op e l g := by
  subst he hl hg
  unfold evalCmp cmpOps
  rw [ho]
  simp only [Bool.true_and]

/-- Without an order and without `<` either way, only `=` and `!=` can hold. -/
theorem evalCmp_unordered (op : GoString) (v c : SVal)
    (hl : valLt v c = false) (hg : valLt c v = false) (ho : valOrdered v c = false) :
    evalCmp op v c = (if op = Op.eq then valEq v c else if op = Op.ne then !valEq v c else false) := by
  unfold evalCmp
  rw [hl, hg, ho]
  simp only [Bool.false_and, Bool.or_false, ite_self]

/-! ### The natural order, class by class -/

theorem ite3_lt (p q : Prop) [Decidable p] [Decidable q] :
    ((if p then Ordering.lt else if q then Ordering.eq else Ordering.gt) = Ordering.lt) ↔ p := by
  by_cases hp : p
  · simp only [hp, if_true]
  · by_cases hq : q
    · simp only [hp, hq, if_false, if_true, reduceCtorEq]
    · simp only [hp, hq, if_false, reduceCtorEq]

theorem valLt_s (a b : GoString) : valLt (.pay (.s a)) (.pay (.s b)) = decide (a < b) := by
  simp only [valLt, ord, Option.some.injEq, ite3_lt]
theorem valLt_i (a b : Int) : valLt (.pay (.i a)) (.pay (.i b)) = decide (a < b) := by
  simp only [valLt, ord, Option.some.injEq, ite3_lt]
theorem valLt_t (a b : Time) : valLt (.pay (.t a)) (.pay (.t b)) = a.before b := by
  simp only [valLt, ord, Option.some.injEq, ite3_lt, Bool.decide_eq_true]
theorem valLt_bs (a b : Option (List UInt8)) :
    valLt (.pay (.bs a)) (.pay (.bs b)) = decide (Pay.bytesOf a < Pay.bytesOf b) := by
  simp only [valLt, ord, Option.some.injEq, ite3_lt]

/-- `cmpPay` (the Go comparison helpers) computes `evalCmp` on two payloads of one class. -/
theorem cmpPay_spec (op : GoString) (a b : Pay) (x : Bool) (h : cmpPay op a b = some x) :
    evalCmp op (.pay a) (.pay b) = x := by
  cases a <;> cases b <;> simp only [cmpPay, reduceCtorEq, Option.some.injEq] at h
  · subst h; exact evalCmp_cmpOps op _ _ _ _ _ rfl (valLt_s _ _) (valLt_s _ _) rfl
  · subst h; exact evalCmp_cmpOps op _ _ _ _ _ rfl (valLt_i _ _) (valLt_i _ _) rfl
  · subst h
    rw [evalCmp_unordered op _ _ rfl rfl rfl]
    simp only [valEq, payEq, ne_eq, decide_not]
  · subst h; exact evalCmp_cmpOps op _ _ _ _ _ rfl (valLt_t _ _) (valLt_t _ _) rfl
  · subst h; exact evalCmp_cmpOps op _ _ _ _ _ rfl (valLt_bs _ _) (valLt_bs _ _) rfl

/-- Two payloads of the shape of one kind are of one class. -/
theorem cmpPay_isSome (op : GoString) (k : Kind) (p p' : Pay)
    (h : k.payOk p = true) (h' : k.payOk p' = true) : ∃ x, cmpPay op p p' = some x := by
  cases p <;> cases p' <;>
    first
    | exact ⟨_, rfl⟩
    | (exfalso; cases k <;> simp [Kind.payOk, Kind.range?] at h h')

theorem checkSlice_spec (op : GoString) (a b : List GoString) :
    checkSlice op a b = evalCmp op (.ids a) (.ids b) := by
  rw [evalCmp_unordered op _ _ rfl rfl rfl]
  rfl

/-! ### `checkVal`: every Go type of a well-typed value has a case -/

theorem kind_val_case (k : Kind) :
    (if k.goName = "[]uint8" then "[]byte"
      else if k.goName = "*[]uint8" then "*[]byte" else k.goName) ∈ Facts.checkValCases := by
  cases k <;> decide

theorem kind_ptr_case (k : Kind) :
    (if "*" ++ k.goName = "[]uint8" then "[]byte"
      else if "*" ++ k.goName = "*[]uint8" then "*[]byte" else "*" ++ k.goName)
      ∈ Facts.checkValCases := by
  cases k <;> decide

theorem strs_case :
    (if "[]string" = "[]uint8" then "[]byte"
      else if "[]string" = "*[]uint8" then "*[]byte" else "[]string")
      ∈ Facts.checkValCases := by decide

theorem checkVal_val (op : GoString) (k : Kind) (p p' : Pay) :
    checkVal op (.val k p) (.val k p') =
      (match cmpPay op p p' with | some b => .ok b | none => .panic) := by
  unfold checkVal
  dsimp only
  rw [if_neg (fun h => h (kind_val_case k))]
  simp only [if_true]
  rfl

theorem checkVal_ptr (op : GoString) (k : Kind) (p p' : Option Pay) :
    checkVal op (.ptr k p) (.ptr k p') =
      (match p, p' with
        | none, none => .ok (if op = Op.eq then true else false)
        | none, some _ => .ok (if op = Op.ne then true else false)
        | some _, none => .ok (if op = Op.ne then true else false)
        | some a, some b => (match cmpPay op a b with | some r => .ok r | none => .panic)) := by
  unfold checkVal
  dsimp only
  rw [if_neg (fun h => h (kind_ptr_case k))]
  simp only [ne_eq, not_true_eq_false, if_false]
  rfl

theorem checkVal_strs (op : GoString) (a b : List GoString) :
    checkVal op (.strs a) (.strs b) = .ok (checkSlice op a b) := by
  unfold checkVal
  dsimp only
  rw [if_neg (fun h => h strs_case)]

theorem evalCmp_nil_nil (op : GoString) :
    evalCmp op .nil .nil = (if op = Op.eq then true else false) := by
  rw [evalCmp_unordered op _ _ rfl rfl rfl]
  by_cases h : op = Op.eq
  · simp only [h, if_true, valEq]
  · by_cases h' : op = Op.ne
    · subst h'; rfl
    · simp only [h, h', if_false]

theorem evalCmp_nil_pay (op : GoString) (p : Pay) :
    evalCmp op .nil (.pay p) = (if op = Op.ne then true else false) := by
  rw [evalCmp_unordered op _ _ rfl rfl rfl]
  by_cases h : op = Op.eq
  · subst h; rfl
  · by_cases h' : op = Op.ne
    · subst h'; rfl
    · simp only [h, h', if_false]

theorem evalCmp_pay_nil (op : GoString) (p : Pay) :
    evalCmp op (.pay p) .nil = (if op = Op.ne then true else false) := by
  rw [evalCmp_unordered op _ _ rfl rfl rfl]
  by_cases h : op = Op.eq
  · subst h; rfl
  · by_cases h' : op = Op.ne
    · subst h'; rfl
    · simp only [h, h', if_false]

/-- On two values of one declared attribute type, `checkVal` returns the comparison's
logical value (and neither panics nor falls to `default`). -/
theorem checkVal_spec (op : GoString) (k : Kind) (n : Bool) (v c : GoVal)
    (hv : v.hasAttrType k n = true) (hc : c.hasAttrType k n = true) :
    checkVal op v c = .ok (evalCmp op (sval v) (sval c)) := by
  cases v with
  | val kv p =>
    cases c with
    | val kc p' =>
      simp only [GoVal.hasAttrType, Bool.and_eq_true, decide_eq_true_eq] at hv hc
      obtain ⟨⟨_, e1⟩, o1⟩ := hv
      obtain ⟨⟨_, e2⟩, o2⟩ := hc
      subst e2; subst e1
      obtain ⟨x, hx⟩ := cmpPay_isSome op kv p p' o1 o2
      rw [checkVal_val, hx]
      simp only [sval, cmpPay_spec op p p' x hx]
    | ptr kc q =>
      cases q <;> cases n <;> simp [GoVal.hasAttrType] at hv hc
    | _ => simp [GoVal.hasAttrType] at hc
  | ptr kv q =>
    cases c with
    | ptr kc q' =>
      have e1 : kv = k := by
        cases q <;> simp only [GoVal.hasAttrType, Bool.and_eq_true, decide_eq_true_eq] at hv
        · exact hv.2
        · exact hv.1.2
      have e2 : kc = k := by
        cases q' <;> simp only [GoVal.hasAttrType, Bool.and_eq_true, decide_eq_true_eq] at hc
        · exact hc.2
        · exact hc.1.2
      subst e2; subst e1
      rw [checkVal_ptr]
      cases q with
      | none =>
        cases q' with
        | none => simp only [sval, evalCmp_nil_nil]
        | some b => simp only [sval, evalCmp_nil_pay]
      | some a =>
        cases q' with
        | none => simp only [sval, evalCmp_pay_nil]
        | some b =>
          simp only [GoVal.hasAttrType, Bool.and_eq_true] at hv hc
          obtain ⟨x, hx⟩ := cmpPay_isSome op kv a b hv.2 hc.2
          simp only [hx, sval, cmpPay_spec op a b x hx]
    | val kc p' =>
      cases q <;> cases n <;> simp [GoVal.hasAttrType] at hv hc
    | _ => simp [GoVal.hasAttrType] at hc
  | _ => simp [GoVal.hasAttrType] at hv

/-! ### What `ResView.wf` says about one field -/

theorem GoMap.get?_mem {β : Type} {m : GoMap β} {k : GoString} {v : β}
    (h : m.get? k = some v) : (k, v) ∈ m := by
  induction m with
  | nil => simp [GoMap.get?] at h
  | cons p m ih =>
    obtain ⟨k', v'⟩ := p
    simp only [GoMap.get?] at h
    split at h
    · rename_i e
      cases h; subst e
      exact List.mem_cons_self
    · exact List.mem_cons_of_mem _ (ih h)

theorem wf_rel {r : ResView} (hr : r.wf = true) {f : GoString} {rel : Rel}
    (h : r.rels.get? f = some rel) :
    (∃ id, r.get f = .val .string (.s id) ∧ rel.toOne = true) ∨
    (∃ l, r.get f = .strs l ∧ rel.toOne = false) := by
  unfold ResView.wf at hr
  rw [Bool.and_eq_true] at hr
  have := List.all_eq_true.1 hr.2 (f, rel) (GoMap.get?_mem h)
  simp only [h] at this
  split at this
  · rename_i id e; exact .inl ⟨id, e, this⟩
  · rename_i l e; exact .inr ⟨l, e, by simpa using this⟩
  · exact absurd this (by simp)

theorem wf_attr {r : ResView} (hr : r.wf = true) {f : GoString} {a : Attr}
    (h : r.attrs.get? f = some a) :
    r.rels.get? f = none ∧ ∃ k, Kind.ofCode? a.ty = some k ∧
      ((r.get f).hasAttrType k a.nullable = true ∨ (a.nullable = true ∧ r.get f = .nil)) := by
  unfold ResView.wf at hr
  rw [Bool.and_eq_true] at hr
  have := List.all_eq_true.1 hr.1 (f, a) (GoMap.get?_mem h)
  simp only [h, Bool.and_eq_true, Bool.not_eq_true', GoMap.has] at this
  obtain ⟨h1, h2⟩ := this
  refine ⟨by simpa using h1, ?_⟩
  cases hk : Kind.ofCode? a.ty with
  | none => rw [hk] at h2; exact absurd h2 (by simp)
  | some k =>
    rw [hk] at h2
    refine ⟨k, rfl, ?_⟩
    simpa using h2

/-- `getAttrVal` only turns an untyped nil of a nullable attribute into the typed one. -/
theorem getAttrVal_spec {r : ResView} {f : GoString} {a : Attr} {k : Kind}
    (h : r.attrs.get? f = some a) (hk : Kind.ofCode? a.ty = some k)
    (hv : (r.get f).hasAttrType k a.nullable = true ∨ (a.nullable = true ∧ r.get f = .nil)) :
    (getAttrVal r f).hasAttrType k a.nullable = true ∧ sval (getAttrVal r f) = sval (r.get f) := by
  unfold getAttrVal
  split
  · rename_i e
    rw [e] at hv
    rcases hv with hv | ⟨hn, _⟩
    · simp [GoVal.hasAttrType] at hv
    · simp only [h, hn, hk, e, if_true, GoVal.hasAttrType, sval, Bool.true_and, decide_true, and_self]
  · rename_i hne
    rcases hv with hv | ⟨_, e⟩
    · exact ⟨hv, rfl⟩
    · exact absurd e (hne)

/-! ### Operator names -/

theorem Op.in_ne_and : Op.in_ ≠ Op.and_ := by decide
theorem Op.in_ne_or : Op.in_ ≠ Op.or_ := by decide
theorem Op.has_ne_in : Op.has ≠ Op.in_ := by decide

/-! ### One leaf -/

theorem eval_leaf (r : ResView) (field op : GoString) (val : GoVal) :
    Spec.eval r (.leaf field op val) =
      (if op = Op.in_ then
        (match fieldSVal r field, val with
          | .pay (.s id), .strs ids => ids.contains id
          | _, _ => false)
      else if op = Op.has then
        (match val, fieldSVal r field with
          | .val _ (.s id), .ids ids => ids.contains id
          | _, _ => false)
      else evalCmp op (fieldSVal r field) (sval val)) := by
  rfl
theorem isAllowed_leaf (r : ResView) (field op : GoString) (val : GoVal) :
    isAllowed r (.leaf field op val) =
    (match fieldVal r field with
    | .ok v =>
      if op = Op.and_ ∨ op = Op.or_ then .panic
      else if op = Op.in_ then
        (match v, val with
          | .val .string (.s id), .strs ids => .ok (ids.contains id)
          | _, _ => .panic)
      else if op = Op.has then
        (match val, v with
          | .val .string (.s id), .strs ids => .ok (ids.contains id)
          | _, _ => .panic)
      else checkVal op v val
    | .err => .err
    | .panic => .panic) := by
  rfl

theorem leaf_spec (r : ResView) (hr : r.wf = true) (field op : GoString) (val : GoVal)
    (hf : leafWellTyped r field op val = true) :
    isAllowed r (.leaf field op val) = .ok (Spec.eval r (.leaf field op val)) := by
  unfold leafWellTyped at hf
  simp only [Bool.and_eq_true, decide_eq_true_eq, ne_eq] at hf
  obtain ⟨⟨hand, hor⟩, hf⟩ := hf
  have hao : ¬ (op = Op.and_ ∨ op = Op.or_) := fun h => h.elim hand hor
  rw [isAllowed_leaf, eval_leaf]
  cases hrel : r.rels.get? field with
  | some rel =>
    rw [hrel] at hf
    have hfs : fieldSVal r field = sval (r.get field) := by
      unfold fieldSVal
      rw [if_pos (.inl (by simp [GoMap.has, hrel]))]
    rw [hfs]
    rcases wf_rel hr hrel with ⟨id, hg, hone⟩ | ⟨l, hg, hone⟩
    · have hfv : fieldVal r field = .ok (.val .string (.s id)) := by
        unfold fieldVal; simp only [hrel, hone, if_true, hg]
      rw [hfv, hg]
      simp only [hone] at hf
      by_cases hin : op = Op.in_
      · simp only [hin, if_true, Bool.true_and] at hf
        cases val <;> simp only [reduceCtorEq] at hf
        simp only [hin, Op.in_ne_and, Op.in_ne_or, or_self, if_false, if_true, sval]
      · by_cases hhas : op = Op.has
        · simp [hhas, Op.has_ne_in] at hf
        · simp only [hin, hhas, if_false, if_true] at hf
          simp only [hao, hin, hhas, if_false]
          split at hf
          · rw [checkVal_val]
            obtain ⟨x, hx⟩ := cmpPay_isSome op .string (.s id) (.s _) rfl rfl
            rw [hx]; simp only [sval, cmpPay_spec _ _ _ x hx]
          · exact absurd hf (by simp)
    · have hfv : fieldVal r field = .ok (.strs l) := by
        unfold fieldVal; simp only [hrel, hone, hg]; rfl
      rw [hfv, hg]
      simp only [hone] at hf
      by_cases hin : op = Op.in_
      · simp [hin] at hf
      · by_cases hhas : op = Op.has
        · simp only [hhas, Op.has_ne_in, if_false, if_true, Bool.not_false, Bool.true_and] at hf
          split at hf
          · subst hhas
            simp only [Op.has_ne_in, if_false, if_true, sval]
            rw [if_neg (by decide)]
          · exact absurd hf (by simp)
        · simp only [hin, hhas, if_false, Bool.false_eq_true] at hf
          simp only [hao, hin, hhas, if_false]
          split at hf
          · rw [checkVal_strs, checkSlice_spec]; rfl
          · exact absurd hf (by simp)
  | none =>
    rw [hrel] at hf
    cases hat : r.attrs.get? field with
    | none => rw [hat] at hf; exact absurd hf (by simp)
    | some a =>
      rw [hat] at hf
      obtain ⟨_, k, hk, hv⟩ := wf_attr hr hat
      simp only [hk] at hf
      obtain ⟨hty, hsv⟩ := getAttrVal_spec hat hk hv
      have hfs : fieldSVal r field = sval (getAttrVal r field) := by
        unfold fieldSVal
        rw [if_pos (.inr (by simp [GoMap.has, hat])), hsv]
      have hfv : fieldVal r field = .ok (getAttrVal r field) := by
        unfold fieldVal
        simp only [hrel, GoMap.has, hat, Option.isSome_some, if_true]
      rw [hfs, hfv]
      generalize getAttrVal r field = v at hty
      by_cases hin : op = Op.in_
      · simp only [hin, if_true, Bool.and_eq_true, decide_eq_true_eq, Bool.not_eq_true'] at hf
        obtain ⟨⟨e1, e2⟩, hval⟩ := hf
        subst e1
        rw [e2] at hty
        cases val <;> simp only [reduceCtorEq] at hval
        cases v with
        | val kv p =>
          simp only [GoVal.hasAttrType, Bool.not_false, Bool.true_and, Bool.and_eq_true,
            decide_eq_true_eq] at hty
          obtain ⟨e, hp⟩ := hty
          subst e
          cases p <;> simp [Kind.payOk, Kind.range?] at hp
          simp only [hin, Op.in_ne_and, Op.in_ne_or, or_self, if_false, if_true, sval]
        | ptr kv q => cases q <;> simp [GoVal.hasAttrType] at hty
        | _ => simp [GoVal.hasAttrType] at hty
      · by_cases hhas : op = Op.has
        · simp [hhas, Op.has_ne_in] at hf
        · simp only [hin, hhas, if_false] at hf
          simp only [hao, hin, hhas, if_false]
          exact checkVal_spec op k a.nullable v val hty hf

/-! ### The recursion: `and`/`or` nodes -/

theorem eval_and (r : ResView) (fs : List Filter) :
    Spec.eval r (.node true fs) = evalAll r fs := rfl
theorem eval_or (r : ResView) (fs : List Filter) :
    Spec.eval r (.node false fs) = evalAny r fs := rfl
theorem evalAll_nil (r : ResView) : evalAll r [] = true := rfl
theorem evalAny_nil (r : ResView) : evalAny r [] = false := rfl
theorem evalAll_cons (r : ResView) (f : Filter) (fs : List Filter) :
    evalAll r (f :: fs) = (Spec.eval r f && evalAll r fs) := rfl
theorem evalAny_cons (r : ResView) (f : Filter) (fs : List Filter) :
    evalAny r (f :: fs) = (Spec.eval r f || evalAny r fs) := rfl
theorem isAllowed_and (r : ResView) (fs : List Filter) :
    isAllowed r (.node true fs) = allAllowed r fs := rfl
theorem isAllowed_or (r : ResView) (fs : List Filter) :
    isAllowed r (.node false fs) = anyAllowed r fs := rfl
theorem allAllowed_nil (r : ResView) : allAllowed r [] = .ok true := rfl
theorem anyAllowed_nil (r : ResView) : anyAllowed r [] = .ok false := rfl
theorem allAllowed_cons (r : ResView) (f : Filter) (fs : List Filter) :
    allAllowed r (f :: fs) = (match isAllowed r f with
      | .ok true => allAllowed r fs
      | .ok false => .ok false
      | .err => .err
      | .panic => .panic) := rfl
theorem anyAllowed_cons (r : ResView) (f : Filter) (fs : List Filter) :
    anyAllowed r (f :: fs) = (match isAllowed r f with
      | .ok true => .ok true
      | .ok false => anyAllowed r fs
      | .err => .err
      | .panic => .panic) := rfl
theorem wellTyped_node (r : ResView) (b : Bool) (fs : List Filter) :
    wellTyped r (.node b fs) = wellTypedAll r fs := rfl
theorem wellTyped_leaf (r : ResView) (field op : GoString) (val : GoVal) :
    wellTyped r (.leaf field op val) = leafWellTyped r field op val := rfl
theorem wellTypedAll_nil (r : ResView) : wellTypedAll r [] = true := rfl
theorem wellTypedAll_cons (r : ResView) (f : Filter) (fs : List Filter) :
    wellTypedAll r (f :: fs) = (wellTyped r f && wellTypedAll r fs) := rfl

/-! ### Exactly one of three -/

theorem one_of_three (p q s : Prop) [Decidable p] [Decidable q] [Decidable s]
    (h : p ∨ q ∨ s) (hpq : p → ¬ q) (hps : p → ¬ s) (hqs : q → ¬ s) :
    (decide p = true ∧ decide q = false ∧ decide s = false) ∨
    (decide p = false ∧ decide q = true ∧ decide s = false) ∨
    (decide p = false ∧ decide q = false ∧ decide s = true) := by
  rcases h with h | h | h
  · exact .inl ⟨decide_eq_true h, decide_eq_false (hpq h), decide_eq_false (hps h)⟩
  · exact .inr (.inl ⟨decide_eq_false (fun hp => hpq hp h), decide_eq_true h,
      decide_eq_false (hqs h)⟩)
  · exact .inr (.inr ⟨decide_eq_false (fun hp => hps hp h),
      decide_eq_false (fun hq => hqs hq h), decide_eq_true h⟩)

theorem gostring_tri (a b : List UInt8) :
    (decide (a < b) = true ∧ decide (a = b) = false ∧ decide (b < a) = false) ∨
    (decide (a < b) = false ∧ decide (a = b) = true ∧ decide (b < a) = false) ∨
    (decide (a < b) = false ∧ decide (a = b) = false ∧ decide (b < a) = true) :=
  one_of_three _ _ _ (Std.lt_trichotomy a b)
    (fun h e => List.lt_irrefl b (e ▸ h)) (fun h => List.lt_asymm h)
    (fun e h => List.lt_irrefl a (e ▸ h))

theorem int_tri (a b : Int) :
    (decide (a < b) = true ∧ decide (a = b) = false ∧ decide (b < a) = false) ∨
    (decide (a < b) = false ∧ decide (a = b) = true ∧ decide (b < a) = false) ∨
    (decide (a < b) = false ∧ decide (a = b) = false ∧ decide (b < a) = true) :=
  one_of_three _ _ _ (by omega) (by omega) (by omega) (by omega)

theorem time_tri (a b : Time) :
    (a.before b = true ∧ a.equal b = false ∧ b.before a = false) ∨
    (a.before b = false ∧ a.equal b = true ∧ b.before a = false) ∨
    (a.before b = false ∧ a.equal b = false ∧ b.before a = true) := by
  unfold Time.before Time.equal
  exact one_of_three _ _ _ (by omega) (by omega) (by omega) (by omega)

/-! ### Independence of the resource implementation -/

theorem fieldSVal_congr (r₁ r₂ : ResView) (ha : r₁.attrs = r₂.attrs) (hrel : r₁.rels = r₂.rels)
    (hv : ∀ k, sval (r₁.get k) = sval (r₂.get k)) (field : GoString) :
    fieldSVal r₁ field = fieldSVal r₂ field := by
  unfold fieldSVal
  rw [ha, hrel, hv]

theorem leafWellTyped_congr (r₁ r₂ : ResView) (ha : r₁.attrs = r₂.attrs)
    (hrel : r₁.rels = r₂.rels) (field op : GoString) (val : GoVal) :
    leafWellTyped r₁ field op val = leafWellTyped r₂ field op val := by
  unfold leafWellTyped
  rw [ha, hrel]

mutual
theorem eval_congr (r₁ r₂ : ResView) (ha : r₁.attrs = r₂.attrs) (hrel : r₁.rels = r₂.rels)
    (hv : ∀ k, sval (r₁.get k) = sval (r₂.get k)) :
    (f : Filter) → Spec.eval r₁ f = Spec.eval r₂ f
  | .node true fs => by
    rw [eval_and, eval_and]; exact evalAll_congr r₁ r₂ ha hrel hv fs
  | .node false fs => by
    rw [eval_or, eval_or]; exact evalAny_congr r₁ r₂ ha hrel hv fs
  | .leaf field op val => by
    rw [eval_leaf, eval_leaf, fieldSVal_congr r₁ r₂ ha hrel hv]
theorem evalAll_congr (r₁ r₂ : ResView) (ha : r₁.attrs = r₂.attrs) (hrel : r₁.rels = r₂.rels)
    (hv : ∀ k, sval (r₁.get k) = sval (r₂.get k)) :
    (fs : List Filter) → evalAll r₁ fs = evalAll r₂ fs
  | [] => rfl
  | f :: fs => by
    rw [evalAll_cons, evalAll_cons, eval_congr r₁ r₂ ha hrel hv f,
      evalAll_congr r₁ r₂ ha hrel hv fs]
theorem evalAny_congr (r₁ r₂ : ResView) (ha : r₁.attrs = r₂.attrs) (hrel : r₁.rels = r₂.rels)
    (hv : ∀ k, sval (r₁.get k) = sval (r₂.get k)) :
    (fs : List Filter) → evalAny r₁ fs = evalAny r₂ fs
  | [] => rfl
  | f :: fs => by
    rw [evalAny_cons, evalAny_cons, eval_congr r₁ r₂ ha hrel hv f,
      evalAny_congr r₁ r₂ ha hrel hv fs]
end

mutual
theorem wellTyped_congr (r₁ r₂ : ResView) (ha : r₁.attrs = r₂.attrs) (hrel : r₁.rels = r₂.rels) :
    (f : Filter) → wellTyped r₁ f = wellTyped r₂ f
  | .node b fs => by
    rw [wellTyped_node, wellTyped_node]; exact wellTypedAll_congr r₁ r₂ ha hrel fs
  | .leaf field op val => by
    rw [wellTyped_leaf, wellTyped_leaf]; exact leafWellTyped_congr r₁ r₂ ha hrel field op val
theorem wellTypedAll_congr (r₁ r₂ : ResView) (ha : r₁.attrs = r₂.attrs)
    (hrel : r₁.rels = r₂.rels) :
    (fs : List Filter) → wellTypedAll r₁ fs = wellTypedAll r₂ fs
  | [] => rfl
  | f :: fs => by
    rw [wellTypedAll_cons, wellTypedAll_cons, wellTyped_congr r₁ r₂ ha hrel f,
      wellTypedAll_congr r₁ r₂ ha hrel fs]
end

end Jsonapi
