/-
Helper lemmas for the round-trip property C02, part 1: objects with optional members and
error objects (`Spec.errorOfJson` inverts `ErrorObj.toJson`).
-/
import Jsonapi.Proofs.RoundTripLemmas3
namespace Jsonapi
namespace RtL
open GoMap UnmL MarshalL


/-! ### objects with optional members -/

/-- the members of an object whose members are each written only under a condition -/
def optMembers (ps : List (Bool × GoString × Json)) : List (GoString × Json) :=
  ps.flatMap (fun p => if p.1 then [(p.2.1, p.2.2)] else [])

theorem optMembers_cons (b : Bool) (k : GoString) (j : Json) (ps : List (Bool × GoString × Json)) :
    optMembers ((b, k, j) :: ps) = (if b then [(k, j)] else []) ++ optMembers ps := by
  simp [optMembers]

theorem optMembers_keys_sublist (ps : List (Bool × GoString × Json)) :
    ((optMembers ps).map (·.1)).Sublist (ps.map (·.2.1)) := by
  induction ps with
  | nil => exact List.Sublist.slnil
  | cons p ps ih =>
    obtain ⟨b, k, j⟩ := p
    rw [optMembers_cons]
    cases b
    · simpa using ih.cons k
    · simpa using ih.cons_cons k

theorem mem_optMembers {ps : List (Bool × GoString × Json)} {k : GoString} {j : Json} :
    (k, j) ∈ optMembers ps ↔ (true, k, j) ∈ ps := by
  simp only [optMembers, List.mem_flatMap]
  constructor
  · rintro ⟨⟨b, k', j'⟩, hp, hm⟩
    cases b
    · simp at hm
    · simp only [if_true, List.mem_singleton, Prod.mk.injEq] at hm
      obtain ⟨rfl, rfl⟩ := hm
      exact hp
  · intro h
    exact ⟨_, h, by simp⟩

theorem nodup_map_inj {α β : Type} {f : α → β} {l : List α} (h : (l.map f).Nodup) {a b : α}
    (ha : a ∈ l) (hb : b ∈ l) (e : f a = f b) : a = b := by
  induction l with
  | nil => cases ha
  | cons x l ih =>
    simp only [List.map_cons, List.nodup_cons] at h
    rcases List.mem_cons.1 ha with rfl | ha' <;> rcases List.mem_cons.1 hb with rfl | hb'
    · rfl
    · exact absurd (List.mem_map.2 ⟨b, hb', e.symm⟩) h.1
    · exact absurd (List.mem_map.2 ⟨a, ha', e⟩) h.1
    · exact ih h.2 ha' hb'

theorem get?_optMembers {ps : List (Bool × GoString × Json)} (hnd : (ps.map (·.2.1)).Nodup)
    {b : Bool} {k : GoString} {j : Json} (h : (b, k, j) ∈ ps) :
    (Json.obj (sortMembers (optMembers ps))).get? k = if b then some j else none := by
  have hnd' := (optMembers_keys_sublist ps).nodup hnd
  cases b
  · apply get?_sortMembers_none
    intro hk
    obtain ⟨⟨k', j'⟩, hm, rfl⟩ := List.mem_map.1 hk
    have := nodup_map_inj hnd h (mem_optMembers.1 hm) rfl
    cases this
  · exact get?_sortMembers_of_mem hnd' (mem_optMembers.2 h)

/-! ### error objects -/

/-- the conditional members of `Error.MarshalJSON` -/
def errMembers (e : ErrorObj) : List (Bool × GoString × Json) :=
  [(decide (e.id ≠ []), K.id, .str e.id), (decide (e.code ≠ []), K.code, .str e.code),
   (decide (e.status ≠ []), K.status, .str e.status), (decide (e.title ≠ []), K.title, .str e.title),
   (decide (e.detail ≠ []), K.detail, .str e.detail),
   (!e.links.isEmpty, K.links, .obj (sortMembers (e.links.map (fun p => (p.1, Json.str p.2))))),
   (!e.source.isEmpty, K.source, .obj e.source), (!e.emeta.isEmpty, K.kmeta, .obj e.emeta)]

theorem toJson_eq (e : ErrorObj) : e.toJson = .obj (sortMembers (optMembers (errMembers e))) := by
  unfold ErrorObj.toJson errMembers
  simp only [optMembers_cons]
  cases e.links.isEmpty <;> cases e.source.isEmpty <;> cases e.emeta.isEmpty <;>
    simp [optMembers]

theorem errMembers_nodup (e : ErrorObj) : ((errMembers e).map (·.2.1)).Nodup := by
  simp only [errMembers, List.map_cons, List.map_nil]
  decide

theorem strOf_opt (s : GoString) :
    Spec.strOf (if decide (s ≠ []) = true then some (Json.str s) else none) = s := by
  by_cases h : s = []
  · simp [h, Spec.strOf]
  · simp [h, Spec.strOf]

theorem membersOf_opt (m : List (GoString × Json)) :
    Spec.membersOf (if (!m.isEmpty) = true then some (Json.obj m) else none) = m := by
  cases m <;> simp [Spec.membersOf]

theorem sortMembers_of_sorted {l : List (GoString × Json)}
    (h : l.Pairwise (fun a b => ¬ (b.1 < a.1))) : sortMembers l = l := by
  unfold sortMembers
  apply List.mergeSort_of_pairwise
  refine h.imp ?_
  intro a b hab
  simpa using hab

/-- reading an error object back gives the error object (links in ascending key order) -/
theorem errorOfJson_toJson (e : ErrorObj) (hs : Spec.linksSorted e) :
    Spec.errorOfJson e.toJson = e := by
  have hnd := errMembers_nodup e
  rw [toJson_eq]
  unfold Spec.errorOfJson
  rw [get?_optMembers hnd (b := decide (e.id ≠ [])) (j := .str e.id) (by simp [errMembers]),
    get?_optMembers hnd (b := decide (e.code ≠ [])) (j := .str e.code) (by simp [errMembers]),
    get?_optMembers hnd (b := decide (e.status ≠ [])) (j := .str e.status) (by simp [errMembers]),
    get?_optMembers hnd (b := decide (e.title ≠ [])) (j := .str e.title) (by simp [errMembers]),
    get?_optMembers hnd (b := decide (e.detail ≠ [])) (j := .str e.detail) (by simp [errMembers]),
    get?_optMembers hnd (b := !e.links.isEmpty)
      (j := .obj (sortMembers (e.links.map (fun p => (p.1, Json.str p.2))))) (by simp [errMembers]),
    get?_optMembers hnd (b := !e.source.isEmpty) (j := .obj e.source) (by simp [errMembers]),
    get?_optMembers hnd (b := !e.emeta.isEmpty) (j := .obj e.emeta) (by simp [errMembers])]
  simp only [strOf_opt, membersOf_opt]
  have hl : (Spec.membersOf (if (!e.links.isEmpty) = true then
      some (Json.obj (sortMembers (e.links.map (fun p => (p.1, Json.str p.2))))) else none)).map
      (fun p => (p.1, Spec.strOf (some p.2))) = e.links := by
    rw [sortMembers_of_sorted (by
      rw [List.pairwise_map]; exact hs)]
    cases h : e.links with
    | nil => simp [Spec.membersOf]
    | cons x l =>
      simp only [List.isEmpty_cons, Bool.not_false, if_true, Spec.membersOf, List.map_map]
      rw [List.map_congr_left (g := id)]
      · simp
      · intro p _; simp [Spec.strOf]
  rw [hl]

end RtL
end Jsonapi
