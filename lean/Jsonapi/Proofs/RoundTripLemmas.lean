/-
Helper lemmas for the round-trip properties C01 / C02, part 1: the codec laws of strconv
as used by the library (`printNat` / `printInt` against `parseInt` / `parseUint`), and the
value round trip of one attribute.
-/
import Jsonapi.Spec.RoundTrip
import Jsonapi.Proofs.UnmarshalLemmas6
namespace Jsonapi
namespace RtL
open GoMap UnmL

/-! ### decimal printing against `digitsVal` -/

theorem digitChar_toNat (d : Nat) : (digitChar d).toNat = 48 + d % 10 := by
  unfold digitChar
  simp [UInt8.toNat_ofNat']
  omega

theorem isDigit_digitChar (d : Nat) : isDigit (digitChar d) = true := by
  have h := digitChar_toNat d
  simp only [isDigit, Bool.and_eq_true, decide_eq_true_eq, UInt8.le_iff_toNat_le]
  have h1 : (48 : UInt8).toNat = 48 := rfl
  have h2 : (57 : UInt8).toNat = 57 := rfl
  omega

theorem digitsVal_snoc (s : GoString) (c : UInt8) :
    digitsVal (s ++ [c]) = digitsVal s * 10 + (c.toNat - 48) := by
  simp [digitsVal, List.foldl_append]

theorem printNat_lt (n : Nat) (h : n < 10) : printNat n = [digitChar n] := by
  rw [printNat]; simp [h]

theorem printNat_ge (n : Nat) (h : ¬ n < 10) :
    printNat n = printNat (n / 10) ++ [digitChar (n % 10)] := by
  rw [printNat]; simp [h]

theorem printNat_ne_nil (n : Nat) : printNat n ≠ [] := by
  by_cases h : n < 10
  · rw [printNat_lt n h]; simp
  · rw [printNat_ge n h]; simp

theorem printNat_all_digit (n : Nat) : (printNat n).all isDigit = true := by
  induction n using Nat.strongRecOn with
  | _ n ih =>
    by_cases h : n < 10
    · rw [printNat_lt n h]; simp [isDigit_digitChar]
    · rw [printNat_ge n h]
      simp only [List.all_append, List.all_cons, List.all_nil, Bool.and_true, Bool.and_eq_true]
      exact ⟨ih (n / 10) (by omega), isDigit_digitChar _⟩

theorem digitsVal_printNat (n : Nat) : digitsVal (printNat n) = n := by
  induction n using Nat.strongRecOn with
  | _ n ih =>
    by_cases h : n < 10
    · rw [printNat_lt n h]
      simp only [digitsVal, List.foldl_cons, List.foldl_nil, digitChar_toNat]
      omega
    · rw [printNat_ge n h, digitsVal_snoc, ih (n / 10) (by omega), digitChar_toNat]
      omega

/-- the first byte of a printed natural number is a digit: neither '+' nor '-' -/
theorem printNat_head (n : Nat) : ∃ c r, printNat n = c :: r ∧ isDigit c = true := by
  have h1 := printNat_ne_nil n
  have h2 := printNat_all_digit n
  cases h : printNat n with
  | nil => exact absurd h h1
  | cons c r =>
    rw [h] at h2
    simp only [List.all_cons, Bool.and_eq_true] at h2
    exact ⟨c, r, rfl, h2.1⟩

theorem isDigit_ne {c : UInt8} (h : isDigit c = true) : c ≠ 43 ∧ c ≠ 45 ∧ c ≠ 110 ∧ c ≠ 34 := by
  simp only [isDigit, Bool.and_eq_true, decide_eq_true_eq, UInt8.le_iff_toNat_le] at h
  have h1 : (48 : UInt8).toNat = 48 := rfl
  refine ⟨?_, ?_, ?_, ?_⟩ <;> (intro e; subst e; revert h; decide)

/-! ### `parseUint` / `parseInt` on printed numbers -/

theorem parseUint_printNat (bits n : Nat) (h : n < 2 ^ bits) :
    parseUint bits (printNat n) = some n := by
  rw [parseUint_spec]
  exact ⟨printNat_ne_nil n, printNat_all_digit n, (digitsVal_printNat n).symm, h⟩

theorem parseInt_printNat (bits n : Nat) (h : n < 2 ^ (bits - 1)) :
    parseInt bits (printNat n) = some (n : Int) := by
  obtain ⟨c, r, e, hc⟩ := printNat_head n
  have hall := printNat_all_digit n
  have hval := digitsVal_printNat n
  rw [e] at hall hval ⊢
  obtain ⟨h43, h45, -, -⟩ := isDigit_ne hc
  rw [parseInt_nosign bits c r h43 h45, hall, hval]
  simp [h]

theorem parseInt_neg_printNat (bits n : Nat) (h : n ≤ 2 ^ (bits - 1)) :
    parseInt bits (45 :: printNat n) = some (-(n : Int)) := by
  rw [parseInt_neg, printNat_all_digit, digitsVal_printNat]
  simp [printNat_ne_nil, h]

theorem printInt_nonneg (i : Int) (h : 0 ≤ i) : printInt i = printNat i.toNat := by
  unfold printInt
  have : ¬ i < 0 := by omega
  simp only [this, if_false]
  congr 1
  omega

theorem printInt_neg (i : Int) (h : i < 0) : printInt i = 45 :: printNat i.natAbs := by
  unfold printInt
  simp [h]

/-- `ParseInt(FormatInt(i, 10), 10, bits) = i` for `i` in the signed range of the width -/
theorem parseInt_printInt (bits : Nat) (i : Int)
    (hlo : -((2 ^ (bits - 1) : Nat) : Int) ≤ i) (hhi : i < ((2 ^ (bits - 1) : Nat) : Int)) :
    parseInt bits (printInt i) = some i := by
  by_cases h : i < 0
  · rw [printInt_neg i h, parseInt_neg_printNat bits i.natAbs (by omega)]
    congr 1; omega
  · rw [printInt_nonneg i (by omega), parseInt_printNat bits i.toNat (by omega)]
    congr 1; omega

/-- `ParseUint(FormatUint(i, 10), 10, bits) = i` for `0 ≤ i < 2^bits` -/
theorem parseUint_printInt (bits : Nat) (i : Int) (hlo : 0 ≤ i) (hhi : i < ((2 ^ bits : Nat) : Int)) :
    parseUint bits (printInt i) = some i.toNat := by
  rw [printInt_nonneg i hlo]
  exact parseUint_printNat bits i.toNat (by omega)

/-- the literal of a printed integer is not "null" and does not start with a quote -/
theorem printInt_ne_null (i : Int) : printInt i ≠ sNull := by
  by_cases h : i < 0
  · rw [printInt_neg i h]; intro e; cases e
  · rw [printInt_nonneg i (by omega)]
    obtain ⟨c, r, e, hc⟩ := printNat_head i.toNat
    rw [e]
    intro e'
    have : c = 110 := by cases e'; rfl
    exact (isDigit_ne hc).2.2.1 this

/-! ### `sameVal` -/


theorem sameVal_strs (a b : List GoString) : Spec.sameVal (.strs a) (.strs b) = a.Perm b := by
  simp [Spec.sameVal]

/-- the comparison of canonical readings that `sameVal` makes outside the to-many case -/
def sameCanon (x y : GoVal) : Prop :=
  match x, y with
  | GoVal.val k (.t x), GoVal.val k' (.t y) => k = k' ∧ x.sec = y.sec ∧ x.nsec = y.nsec
  | GoVal.ptr k (some (.t x)), GoVal.ptr k' (some (.t y)) => k = k' ∧ x.sec = y.sec ∧ x.nsec = y.nsec
  | x, y => x = y

theorem sameVal_nonstrs {a : GoVal} (b : GoVal) (h : ∀ l, a ≠ .strs l) :
    Spec.sameVal a b = sameCanon (Spec.canon a) (Spec.canon b) := by
  unfold Spec.sameVal sameCanon
  split
  · exact absurd rfl (h _)
  · rfl

theorem sameCanon_refl (x : GoVal) : sameCanon x x := by
  unfold sameCanon
  split <;> simp_all

theorem sameVal_of_canon_eq {a b : GoVal} (h : Spec.canon a = Spec.canon b) : Spec.sameVal a b := by
  by_cases ha : ∃ l, a = .strs l
  · obtain ⟨l, rfl⟩ := ha
    have := canon_eq_strs h.symm
    subst this
    rw [sameVal_strs]
  · rw [sameVal_nonstrs b (fun l e => ha ⟨l, e⟩), h]
    exact sameCanon_refl _

theorem sameVal_refl (a : GoVal) : Spec.sameVal a a := sameVal_of_canon_eq rfl

/-- `sameVal` only looks at the canonical reading of its left argument -/
theorem sameVal_congr_left {a a' b : GoVal} (h : Spec.canon a = Spec.canon a')
    (hs : Spec.sameVal a' b) : Spec.sameVal a b := by
  by_cases ha : ∃ l, a = .strs l
  · obtain ⟨l, rfl⟩ := ha
    have := canon_eq_strs h.symm
    subst this
    exact hs
  · have ha' : ∀ l, a' ≠ .strs l := by
      rintro l rfl
      exact ha ⟨l, canon_eq_strs h⟩
    rw [sameVal_nonstrs b (fun l e => ha ⟨l, e⟩), h]
    rwa [sameVal_nonstrs b ha'] at hs

/-! ### one attribute value -/


theorem str_raw_ne_null (c : Spec.Codecs) (s : GoString) : (Spec.rawOf c (.str s)).bytes ≠ sNull := by
  simp only [Spec.rawOf]; intro e; cases e

/-- the JSON of an attribute payload: `encodePay`, or the empty string for a nil byte slice
held by value -/
def PayJson (p : Pay) (j : Json) : Prop :=
  (j = encodePay p ∧ p ≠ .bs none) ∨ (p = .bs none ∧ j = .str [])

theorem payload_roundtrip (c : Spec.Codecs) (a : Attr) (k : Kind) (hk : Kind.ofCode? a.ty = some k)
    (p : Pay) (hp : k.payOk p = true) (j : Json) (hj : PayJson p j)
    (ht : ∀ t, p = .t t → c.TimeOk t) :
    ∃ p', unmarshalToType a (Spec.rawOf c j) = .ok (mkVal k a.nullable p') ∧
      (p' = p ∨ (p = .bs none ∧ p' = .bs (some []))) := by
  cases p with
  | s v =>
    have : k = .string := by simpa [Kind.payOk] using hp
    subst this
    rcases hj with ⟨rfl, -⟩ | ⟨e, -⟩
    · refine ⟨.s v, ?_, .inl rfl⟩
      show unmarshalToType a (Spec.rawOf c (.str v)) = _
      rw [toType_string a _ (str_raw_ne_null c v) hk]
      rfl
    · cases e
  | i n =>
    rcases hj with ⟨rfl, -⟩ | ⟨e, -⟩
    · have hnn : (Spec.rawOf c (encodePay (.i n))).bytes ≠ sNull := printInt_ne_null n
      have hb : (Spec.rawOf c (encodePay (.i n))).bytes = printInt n := rfl
      have hint : k.isInt = true := by
        simp only [Kind.payOk] at hp
        unfold Kind.isInt
        cases h : k.range? with
        | none => rw [h] at hp; cases hp
        | some _ => rfl
      rcases Kind.int_cases k hint with ⟨hs, -⟩ | ⟨-, hu⟩
      · have hr := Kind.signed_range k hs
        simp only [Kind.payOk, hr, decide_eq_true_eq] at hp
        refine ⟨.i n, ?_, .inl rfl⟩
        rw [toType_signed a _ k hnn hk hs, hb, parseInt_printInt k.bits n (by omega) (by omega)]
      · have hr := Kind.unsigned_range k hu
        simp only [Kind.payOk, hr, decide_eq_true_eq] at hp
        refine ⟨.i n, ?_, .inl rfl⟩
        rw [toType_unsigned a _ k hnn hk hu, hb, parseUint_printInt k.bits n (by omega) (by omega)]
        have : ((n.toNat : Nat) : Int) = n := by omega
        simp only [this]
    · cases e
  | b v =>
    have : k = .bool := by simpa [Kind.payOk] using hp
    subst this
    rcases hj with ⟨rfl, -⟩ | ⟨e, -⟩
    · refine ⟨.b v, ?_, .inl rfl⟩
      have hnn : ∀ b, (Spec.rawOf c (.bool b)).bytes ≠ sNull := by
        intro b; cases b <;> simp [Spec.rawOf] <;> decide
      show unmarshalToType a (Spec.rawOf c (.bool v)) = _
      rw [toType_bool a _ (hnn v) hk]
      have h1 : sFalse ≠ sTrue := by decide
      cases v <;> simp [Spec.rawOf, h1]
    · cases e
  | t v =>
    have : k = .time := by simpa [Kind.payOk] using hp
    subst this
    rcases hj with ⟨rfl, -⟩ | ⟨e, -⟩
    · refine ⟨.t v, ?_, .inl rfl⟩
      show unmarshalToType a (Spec.rawOf c (.str (formatTime v))) = _
      rw [toType_time a _ (str_raw_ne_null c _) hk]
      simp only [Spec.rawOf, c.time_law v (ht v rfl)]
    · cases e
  | bs o =>
    have : k = .bytes := by simpa [Kind.payOk] using hp
    subst this
    rcases hj with ⟨rfl, hne⟩ | ⟨e, rfl⟩
    · cases o with
      | none => exact absurd rfl hne
      | some l =>
        refine ⟨.bs (some l), ?_, .inl rfl⟩
        show unmarshalToType a (Spec.rawOf c (.str (b64enc l))) = _
        rw [toType_bytes a _ (str_raw_ne_null c _) hk]
        simp [Spec.rawOf, c.b64_law l]
    · cases e
      refine ⟨.bs (some []), ?_, .inr ⟨rfl, rfl⟩⟩
      rw [toType_bytes a _ (str_raw_ne_null c _) hk]
      have := c.b64_law []
      simp only [b64enc] at this
      simp [Spec.rawOf, this]



theorem sameVal_mkVal (k : Kind) (n : Bool) (p p' : Pay) (hp : k.payOk p = true)
    (h : p' = p ∨ (p = .bs none ∧ p' = .bs (some []))) :
    Spec.sameVal (mkVal k n p') (mkVal k n p) := by
  rcases h with rfl | ⟨rfl, rfl⟩
  · exact sameVal_refl _
  · have : k = .bytes := by simpa [Kind.payOk] using hp
    subst this
    apply sameVal_of_canon_eq
    cases n <;> rfl

theorem null_roundtrip (c : Spec.Codecs) (a : Attr) (k : Kind) (hk : Kind.ofCode? a.ty = some k)
    (hn : a.nullable = true) :
    unmarshalToType a (Spec.rawOf c .null) = .ok (.ptr k none) := by
  rw [toType_null a _ rfl]
  simp [hn, Attr.zero, hk, GoVal.zero]

/-- C01, one attribute value: what the model's marshaling writes for a value of the
attribute's type is accepted by `Attr.UnmarshalToType` and decodes to the same value. -/
theorem value_roundtrip (c : Spec.Codecs) (a : Attr) (k : Kind) (hk : Kind.ofCode? a.ty = some k)
    (v : GoVal) (hv : v.hasAttrType k a.nullable = true ∨ (a.nullable = true ∧ v = .nil))
    (hdom : Spec.codecDom c v) :
    ∃ v', unmarshalToType a (Spec.rawOf c (encodeAttr v)) = .ok v' ∧ Spec.sameVal v' v := by
  rcases hv with hv | ⟨hn, rfl⟩
  · cases v with
    | val k' p =>
      simp only [GoVal.hasAttrType, Bool.and_eq_true, Bool.not_eq_true', decide_eq_true_eq] at hv
      obtain ⟨⟨hn, rfl⟩, hp⟩ := hv
      have hj : PayJson p (encodeAttr (.val k' p)) := by
        by_cases e : p = .bs none
        · subst e; exact .inr ⟨rfl, rfl⟩
        · refine .inl ⟨?_, e⟩
          cases p with
          | bs o => cases o with
            | none => exact absurd rfl e
            | some l => rfl
          | _ => rfl
      obtain ⟨p', h1, h2⟩ := payload_roundtrip c a k' hk p hp _ hj
        (fun t e => hdom k' t (.inl (by rw [e])))
      refine ⟨_, h1, ?_⟩
      have := sameVal_mkVal k' a.nullable p p' hp h2
      simpa [mkVal, hn] using this
    | ptr k' o =>
      cases o with
      | none =>
        simp only [GoVal.hasAttrType, Bool.and_eq_true, decide_eq_true_eq] at hv
        obtain ⟨hn, rfl⟩ := hv
        exact ⟨_, null_roundtrip c a k' hk hn, sameVal_refl _⟩
      | some p =>
        simp only [GoVal.hasAttrType, Bool.and_eq_true, decide_eq_true_eq] at hv
        obtain ⟨⟨hn, rfl⟩, hp⟩ := hv
        have hj : PayJson p (encodeAttr (.ptr k' (some p))) := by
          by_cases e : p = .bs none
          · subst e; exact .inr ⟨rfl, rfl⟩
          · refine .inl ⟨?_, e⟩
            cases p with
            | bs o => cases o with
              | none => exact absurd rfl e
              | some l => rfl
            | _ => rfl
        obtain ⟨p', h1, h2⟩ := payload_roundtrip c a k' hk p hp _ hj
          (fun t e => hdom k' t (.inr (by rw [e])))
        refine ⟨_, h1, ?_⟩
        have := sameVal_mkVal k' a.nullable p p' hp h2
        simpa [mkVal, hn] using this
    | strs l => cases hv
    | nil => cases hv
    | other n => cases hv
  · exact ⟨_, null_roundtrip c a k hk hn, sameVal_of_canon_eq rfl⟩

end RtL
end Jsonapi
