/-
Lemmas for Props/C11R.lean: the state `marshalResource` / `marshalDocument` leave behind
(`postRes`, `postDoc`), and that marshaling that state again leaves it unchanged.
Nothing here needs a hypothesis on the resource: the post-state is a fixed point of the
in-place sorts whatever the resource looks like (the TREE of the second marshal is the
first one's only on the domain `keyedWf`, see Props/C11R.lean).
-/
import Jsonapi.Props.C11M
import Jsonapi.Proofs.FilterLemmas
namespace Jsonapi
namespace RepL
open MarshalL DetL

/-! ### maps -/

theorem set_of_get? {β : Type} (m : GoMap β) (k : GoString) (v : β) (h : m.get? k = some v) :
    m.set k v = m := by
  induction m with
  | nil => cases h
  | cons p m ih =>
    obtain ⟨k', v'⟩ := p
    unfold GoMap.set
    unfold GoMap.get? at h
    by_cases e : k' = k
    · simp only [e, if_true, Option.some.injEq] at h
      simp only [e, if_true, h]
    · simp only [e, if_false] at h
      simp only [e, if_false]
      rw [ih h]

/-! ### the relationships loop of `marshalResource` -/

abbrev RelAcc := Res (List (GoString × Json) × ResView)

/-- one iteration of the relationships loop of `marshalResource` -/
def relStep (prepath : GoString) (fields want : List GoString) (acc : RelAcc)
    (p : GoString × Rel) : RelAcc :=
  match acc with
  | .ok (m, r') =>
    if fields.contains p.2.fromName then
      match marshalRel r' prepath p.2 (want.contains p.2.fromName) with
      | .ok (j, none) => .ok (GoMap.set m p.2.fromName j, r')
      | .ok (j, some sorted) =>
        .ok (GoMap.set m p.2.fromName j,
          { r' with vals := GoMap.set r'.vals p.2.fromName (.strs sorted) })
      | .err => .err
      | .panic => .panic
    else .ok (m, r')
  | e => e

/-- the loop from the resource itself -/
def relsFold (r : ResView) (prepath : GoString) (fields : List GoString)
    (relData : GoMap (List GoString)) : RelAcc :=
  r.rels.foldl (relStep prepath fields ((relData.get? r.typeName).getD [])) (.ok ([], r))

/-- The resource as `MarshalResource` leaves it (to-many lists of the selected relationships
whose data is wanted sorted in place); the resource itself when marshaling fails. -/
def postRes (r : ResView) (prepath : GoString) (fields : List GoString)
    (relData : GoMap (List GoString)) : ResView :=
  match relsFold r prepath fields relData with
  | .ok (_, r') => r'
  | _ => r

/-- the object `marshalResource` assembles from the relationship members -/
def resJson (r : ResView) (prepath : GoString) (fields : List GoString) (rmeta : Meta)
    (rels : List (GoString × Json)) : Json :=
  let attrs : List (GoString × Json) :=
    r.attrs.foldl (fun m p => if fields.contains p.2.name then GoMap.set m p.2.name (encodeAttr (r.get p.2.name)) else m) []
  let members :=
    [(K.id, Json.str r.id), (K.type, Json.str r.typeName),
     (K.links, Json.obj [(K.self, .str (buildSelfLink r prepath))])] ++
    (if attrs.isEmpty then [] else [(K.attributes, Json.obj (sortMembers attrs))]) ++
    (if rels.isEmpty then [] else [(K.relationships, Json.obj (sortMembers rels))]) ++
    (if rmeta.isEmpty then [] else [(K.kmeta, Json.obj rmeta)])
  .obj (sortMembers members)

theorem marshalResource_eq_fold (r : ResView) (prepath : GoString) (fields : List GoString)
    (relData : GoMap (List GoString)) (rmeta : Meta) :
    marshalResource r prepath fields relData rmeta =
      match relsFold r prepath fields relData with
      | .ok (rels, r') => .ok (resJson r prepath fields rmeta rels, r')
      | .err => .err
      | .panic => .panic := rfl

theorem marshalResource_post {r : ResView} {prepath : GoString} {fields : List GoString}
    {relData : GoMap (List GoString)} {rmeta : Meta} {j : Json} {r' : ResView}
    (h : marshalResource r prepath fields relData rmeta = .ok (j, r')) :
    r' = postRes r prepath fields relData := by
  rw [marshalResource_eq_fold] at h
  unfold postRes
  cases hf : relsFold r prepath fields relData with
  | ok s =>
    obtain ⟨m, r1⟩ := s
    rw [hf] at h
    simp only [Res.ok.injEq, Prod.mk.injEq] at h
    exact h.2.symm
  | err => rw [hf] at h; cases h
  | panic => rw [hf] at h; cases h

/-! ### what one iteration does to the resource -/

theorem fold_err (prepath : GoString) (fields want : List GoString) (l : List (GoString × Rel)) :
    l.foldl (relStep prepath fields want) .err = .err := by
  induction l with
  | nil => rfl
  | cons q l ih => exact ih

theorem fold_panic (prepath : GoString) (fields want : List GoString) (l : List (GoString × Rel)) :
    l.foldl (relStep prepath fields want) .panic = .panic := by
  induction l with
  | nil => rfl
  | cons q l ih => exact ih

/-- the iteration sorts: the relationship is selected, its data wanted, it is to-many -/
def Sorts (fields want : List GoString) (q : GoString × Rel) : Prop :=
  fields.contains q.2.fromName = true ∧ want.contains q.2.fromName = true ∧ q.2.toOne = false

theorem marshalRel_some {r : ResView} {prepath : GoString} {rel : Rel} {w : Bool} {j : Json}
    {sorted : List GoString} (h : marshalRel r prepath rel w = .ok (j, some sorted)) :
    rel.toOne = false ∧ w = true ∧
      ∃ ids, r.get rel.fromName = .strs ids ∧ sorted = Typ.sortStrings ids := by
  unfold marshalRel at h
  cases ho : rel.toOne <;> cases hw : w <;> simp only [ho, hw, Bool.false_eq_true, if_false, if_true] at h
  · simp at h
  · refine ⟨rfl, rfl, ?_⟩
    cases hg : r.get rel.fromName with
    | strs ids =>
      rw [hg] at h
      simp only [Res.ok.injEq, Prod.mk.injEq, Option.some.injEq] at h
      exact ⟨ids, rfl, h.2.symm⟩
    | val k pp => rw [hg] at h; cases h
    | ptr k pp => rw [hg] at h; cases h
    | nil => rw [hg] at h; cases h
    | other t => rw [hg] at h; cases h
  · simp at h
  · split at h
    · simp at h
    · cases h

theorem marshalRel_none {r : ResView} {prepath : GoString} {rel : Rel} {w : Bool} {j : Json}
    (h : marshalRel r prepath rel w = .ok (j, none)) : ¬ (w = true ∧ rel.toOne = false) := by
  rintro ⟨hw, ho⟩
  unfold marshalRel at h
  simp only [ho, hw, Bool.false_eq_true, if_false, if_true] at h
  split at h
  · simp at h
  · cases h

/-- A successful iteration leaves the resource alone, or (selected, data wanted, to-many) it
replaces the ID list of the relationship by its sorted copy. -/
theorem relStep_ok {prepath : GoString} {fields want : List GoString}
    {m m' : List (GoString × Json)} {r0 r0' : ResView} {q : GoString × Rel}
    (h : relStep prepath fields want (.ok (m, r0)) q = .ok (m', r0')) :
    (r0' = r0 ∧ ¬ Sorts fields want q) ∨
    (Sorts fields want q ∧ ∃ ids, r0.get q.2.fromName = .strs ids ∧
      r0' = { r0 with vals := GoMap.set r0.vals q.2.fromName (.strs (Typ.sortStrings ids)) }) := by
  unfold relStep at h
  unfold Sorts
  by_cases hc : fields.contains q.2.fromName = true
  · simp only [hc, if_true] at h
    cases hm : marshalRel r0 prepath q.2 (want.contains q.2.fromName) with
    | ok x =>
      obtain ⟨j, o⟩ := x
      rw [hm] at h
      cases o with
      | none =>
        simp only [Res.ok.injEq, Prod.mk.injEq] at h
        exact .inl ⟨h.2.symm, fun x => marshalRel_none hm ⟨x.2.1, x.2.2⟩⟩
      | some sorted =>
        simp only [Res.ok.injEq, Prod.mk.injEq] at h
        obtain ⟨ho, hw, ids, hg, hs⟩ := marshalRel_some hm
        exact .inr ⟨⟨hc, hw, ho⟩, ids, hg, by rw [← hs]; exact h.2.symm⟩
    | err => rw [hm] at h; cases h
    | panic => rw [hm] at h; cases h
  · simp only [hc] at h
    simp only [Bool.false_eq_true, if_false, Res.ok.injEq, Prod.mk.injEq] at h
    exact .inl ⟨h.2.symm, fun x => hc x.1⟩

/-! ### the whole loop -/

/-- the value stored under `k` is a sorted ID list -/
def SortedAt (r : ResView) (k : GoString) : Prop :=
  ∃ ids, r.vals.get? k = some (.strs (Typ.sortStrings ids))

/-- induction principle for a successful run of the loop -/
theorem fold_ok_induct {prepath : GoString} {fields want : List GoString}
    (P : ResView → List (GoString × Rel) → ResView → Prop)
    (hnil : ∀ r, P r [] r)
    (hcons : ∀ m r0 q m' r0' rest r1, relStep prepath fields want (.ok (m, r0)) q = .ok (m', r0') →
      P r0' rest r1 → P r0 (q :: rest) r1) :
    ∀ (l : List (GoString × Rel)) m r0 m1 r1,
      l.foldl (relStep prepath fields want) (.ok (m, r0)) = .ok (m1, r1) → P r0 l r1 := by
  intro l
  induction l with
  | nil =>
    intro m r0 m1 r1 h
    simp only [List.foldl_nil, Res.ok.injEq, Prod.mk.injEq] at h
    rw [← h.2]; exact hnil r0
  | cons q rest ih =>
    intro m r0 m1 r1 h
    rw [List.foldl_cons] at h
    cases hs : relStep prepath fields want (.ok (m, r0)) q with
    | ok x =>
      obtain ⟨m', r0'⟩ := x
      rw [hs] at h
      exact hcons m r0 q m' r0' rest r1 hs (ih m' r0' m1 r1 h)
    | err => rw [hs, fold_err] at h; cases h
    | panic => rw [hs, fold_panic] at h; cases h

theorem step_struct {prepath : GoString} {fields want : List GoString}
    {m m' : List (GoString × Json)} {r0 r0' : ResView} {q : GoString × Rel}
    (h : relStep prepath fields want (.ok (m, r0)) q = .ok (m', r0')) :
    r0'.typeName = r0.typeName ∧ r0'.id = r0.id ∧ r0'.attrs = r0.attrs ∧ r0'.rels = r0.rels := by
  rcases relStep_ok h with ⟨e, _⟩ | ⟨_, ids, _, e⟩ <;> rw [e] <;> exact ⟨rfl, rfl, rfl, rfl⟩

theorem step_sortedAt {prepath : GoString} {fields want : List GoString}
    {m m' : List (GoString × Json)} {r0 r0' : ResView} {q : GoString × Rel}
    (h : relStep prepath fields want (.ok (m, r0)) q = .ok (m', r0')) (k : GoString)
    (hk : SortedAt r0 k) : SortedAt r0' k := by
  rcases relStep_ok h with ⟨e, _⟩ | ⟨_, ids, _, e⟩
  · rw [e]; exact hk
  · rw [e]
    unfold SortedAt
    simp only
    by_cases hkq : k = q.2.fromName
    · subst hkq; exact ⟨ids, GoMap.get?_set_self _ _ _⟩
    · rw [GoMap.get?_set_ne _ _ _ _ hkq]; exact hk

/-- the loop changes nothing but `vals` -/
theorem fold_struct {prepath : GoString} {fields want : List GoString}
    (l : List (GoString × Rel)) (m : List (GoString × Json)) (r0 : ResView)
    (m1 : List (GoString × Json)) (r1 : ResView)
    (h : l.foldl (relStep prepath fields want) (.ok (m, r0)) = .ok (m1, r1)) :
    r1.typeName = r0.typeName ∧ r1.id = r0.id ∧ r1.attrs = r0.attrs ∧ r1.rels = r0.rels := by
  refine fold_ok_induct (fun r0 _ r1 => r1.typeName = r0.typeName ∧ r1.id = r0.id ∧
    r1.attrs = r0.attrs ∧ r1.rels = r0.rels) (fun _ => ⟨rfl, rfl, rfl, rfl⟩) ?_ l m r0 m1 r1 h
  intro m r0 q m' r0' rest r1 hs ih
  obtain ⟨a, b, c, d⟩ := step_struct hs
  exact ⟨ih.1.trans a, ih.2.1.trans b, ih.2.2.1.trans c, ih.2.2.2.trans d⟩

/-- a sorted ID list stays a sorted ID list -/
theorem fold_sortedAt {prepath : GoString} {fields want : List GoString}
    (l : List (GoString × Rel)) (m : List (GoString × Json)) (r0 : ResView)
    (m1 : List (GoString × Json)) (r1 : ResView)
    (h : l.foldl (relStep prepath fields want) (.ok (m, r0)) = .ok (m1, r1)) (k : GoString)
    (hk : SortedAt r0 k) : SortedAt r1 k := by
  refine fold_ok_induct (fun r0 _ r1 => SortedAt r0 k → SortedAt r1 k) (fun _ x => x) ?_
    l m r0 m1 r1 h hk
  intro m r0 q m' r0' rest r1 hs ih x
  exact ih (step_sortedAt hs k x)

/-- after the loop every relationship it sorted holds a sorted ID list -/
theorem fold_sorts {prepath : GoString} {fields want : List GoString}
    (l : List (GoString × Rel)) (m : List (GoString × Json)) (r0 : ResView)
    (m1 : List (GoString × Json)) (r1 : ResView)
    (h : l.foldl (relStep prepath fields want) (.ok (m, r0)) = .ok (m1, r1)) :
    ∀ q ∈ l, Sorts fields want q → SortedAt r1 q.2.fromName := by
  induction l generalizing m r0 with
  | nil => intro q hq; cases hq
  | cons q0 rest ih =>
    rw [List.foldl_cons] at h
    cases hs : relStep prepath fields want (.ok (m, r0)) q0 with
    | ok x =>
      obtain ⟨m', r0'⟩ := x
      rw [hs] at h
      intro q hq hsq
      rcases List.mem_cons.1 hq with e | hq'
      · subst e
        apply fold_sortedAt rest m' r0' m1 r1 h
        rcases relStep_ok hs with ⟨_, hn⟩ | ⟨_, ids, _, e⟩
        · exact absurd hsq hn
        · rw [e]; exact ⟨ids, GoMap.get?_set_self _ _ _⟩
      · exact ih m' r0' h q hq' hsq
    | err => rw [hs, fold_err] at h; cases h
    | panic => rw [hs, fold_panic] at h; cases h

/-- a resource in which every relationship the loop sorts already holds a sorted ID list is
left exactly as it is -/
theorem fold_fixed {prepath : GoString} {fields want : List GoString}
    (l : List (GoString × Rel)) (m : List (GoString × Json)) (r1 : ResView)
    (m2 : List (GoString × Json)) (r2 : ResView)
    (hsorted : ∀ q ∈ l, Sorts fields want q → SortedAt r1 q.2.fromName)
    (h : l.foldl (relStep prepath fields want) (.ok (m, r1)) = .ok (m2, r2)) : r2 = r1 := by
  induction l generalizing m with
  | nil =>
    simp only [List.foldl_nil, Res.ok.injEq, Prod.mk.injEq] at h
    exact h.2.symm
  | cons q0 rest ih =>
    rw [List.foldl_cons] at h
    cases hs : relStep prepath fields want (.ok (m, r1)) q0 with
    | ok x =>
      obtain ⟨m', r1'⟩ := x
      rw [hs] at h
      have e : r1' = r1 := by
        rcases relStep_ok hs with ⟨e, _⟩ | ⟨hq, ids, hg, e⟩
        · exact e
        · obtain ⟨ids0, h0⟩ := hsorted q0 List.mem_cons_self hq
          have hids : ids = Typ.sortStrings ids0 := by
            unfold ResView.get at hg
            rw [h0] at hg
            simp only [Option.getD_some, GoVal.strs.injEq] at hg
            exact hg.symm
          rw [e, hids, sortStrings_idem, set_of_get? _ _ _ h0]
      rw [e] at h
      exact ih m' (fun q hq => hsorted q (List.mem_cons_of_mem _ hq)) h
    | err => rw [hs, fold_err] at h; cases h
    | panic => rw [hs, fold_panic] at h; cases h

/-! ### `postRes` -/

theorem postRes_struct (r : ResView) (prepath : GoString) (fields : List GoString)
    (relData : GoMap (List GoString)) :
    (postRes r prepath fields relData).typeName = r.typeName ∧
    (postRes r prepath fields relData).id = r.id ∧
    (postRes r prepath fields relData).attrs = r.attrs ∧
    (postRes r prepath fields relData).rels = r.rels := by
  unfold postRes
  cases hf : relsFold r prepath fields relData with
  | ok x => obtain ⟨m1, r1⟩ := x; exact fold_struct _ _ _ _ _ hf
  | err => exact ⟨rfl, rfl, rfl, rfl⟩
  | panic => exact ⟨rfl, rfl, rfl, rfl⟩

/-- Marshaling the resource a marshal left behind leaves it exactly as it is: the in-place
sorts have already happened. For EVERY resource. -/
theorem postRes_idem (r : ResView) (prepath : GoString) (fields : List GoString)
    (relData : GoMap (List GoString)) :
    postRes (postRes r prepath fields relData) prepath fields relData =
      postRes r prepath fields relData := by
  cases hf : relsFold r prepath fields relData with
  | ok x =>
    obtain ⟨m1, r1⟩ := x
    have e1 : postRes r prepath fields relData = r1 := by unfold postRes; rw [hf]
    rw [e1]
    obtain ⟨ht, _, _, hr⟩ := fold_struct _ _ _ _ _ hf
    unfold postRes
    cases hf2 : relsFold r1 prepath fields relData with
    | ok y =>
      obtain ⟨m2, r2⟩ := y
      simp only
      unfold relsFold at hf hf2
      rw [hr, ht] at hf2
      exact fold_fixed _ _ _ _ _ (fold_sorts _ _ _ _ _ hf) hf2
    | err => rfl
    | panic => rfl
  | err =>
    have e1 : postRes r prepath fields relData = r := by unfold postRes; rw [hf]
    rw [e1, e1]
  | panic =>
    have e1 : postRes r prepath fields relData = r := by unfold postRes; rw [hf]
    rw [e1, e1]

/-! ### on the domain `keyedWf` -/

/-- `wf` does not look inside an ID list -/
theorem wf_congr {r r' : ResView} (ha : r'.attrs = r.attrs) (hr : r'.rels = r.rels)
    (hg : ∀ k, r'.get k = r.get k ∨ ∃ l l', r.get k = .strs l ∧ r'.get k = .strs l') :
    r'.wf = r.wf := by
  unfold ResView.wf
  rw [ha, hr]
  congr 1
  · congr 1
    funext p
    rcases hg p.1 with e | ⟨l, l', e1, e2⟩
    · rw [e]
    · rw [e1, e2]; simp [GoVal.hasAttrType]
  · congr 1
    funext p
    rcases hg p.1 with e | ⟨l, l', e1, e2⟩
    · rw [e]
    · rw [e1, e2]

/-- on the domain, marshaling succeeds and what it leaves behind is `postRes` -/
theorem post_sameUpTo {r : ResView} (hr : r.keyedWf) (prepath : GoString) (fields : List GoString)
    (relData : GoMap (List GoString)) :
    marshalResource r prepath fields relData [] =
      .ok (Spec.resourceObject r prepath fields relData [], postRes r prepath fields relData) ∧
    SameUpTo r (postRes r prepath fields relData) := by
  obtain ⟨r', h, hs⟩ := marshalResource_eq r hr prepath fields relData []
  have e := marshalResource_post h
  rw [e] at h hs
  exact ⟨h, hs⟩

theorem post_keyedWf {r : ResView} (hr : r.keyedWf) (prepath : GoString) (fields : List GoString)
    (relData : GoMap (List GoString)) : (postRes r prepath fields relData).keyedWf := by
  obtain ⟨_, _, _, ha, hrl, hg⟩ := post_sameUpTo hr prepath fields relData
  obtain ⟨hwf, hka, hkr, hnd⟩ := hr
  refine ⟨?_, by rw [ha]; exact hka, by rw [hrl]; exact hkr, by rw [ha, hrl]; exact hnd⟩
  rw [wf_congr ha hrl (fun k => ?_)]
  · exact hwf
  · rcases hg k with e | ⟨l, e1, e2⟩
    · exact .inl e
    · exact .inr ⟨l, _, e1, e2⟩

/-- on the domain the resource left behind differs from the original only in the order of
to-many ID lists, none of which is read as an attribute -/
theorem post_sameUpToToMany {r : ResView} (hr : r.keyedWf) (prepath : GoString)
    (fields : List GoString) (relData : GoMap (List GoString)) :
    sameUpToToMany (postRes r prepath fields relData) r := by
  obtain ⟨_, ht, hi, ha, hrl, hg⟩ := post_sameUpTo hr prepath fields relData
  refine ⟨ht, hi, ha, hrl, fun k => ?_⟩
  rcases hg k with e | ⟨l, e1, e2⟩
  · exact .inl e
  · refine .inr ⟨?_, _, l, e2, e1, DetL.sortStrings_perm l⟩
    intro a hmem hname
    rw [ha] at hmem
    obtain ⟨p, hp, hpa⟩ := List.mem_map.1 hmem
    have hkey : p.1 = p.2.name := hr.2.1 p hp
    have hget : r.attrs.get? p.1 = some p.2 :=
      get?_of_mem (List.nodup_append.1 hr.2.2.2).1 (by cases p; exact hp)
    obtain ⟨_, kk, _, hty⟩ := wf_attr hr.1 hget
    rw [hkey, hpa, hname, e1] at hty
    rcases hty with h' | ⟨_, h'⟩
    · simp [GoVal.hasAttrType] at h'
    · cases h'

/-- on the domain the resource left behind marshals to the same object, under every prefix,
selection and relationship-data map -/
theorem post_resourceObject {r : ResView} (hr : r.keyedWf) (prepath : GoString)
    (fields : List GoString) (relData : GoMap (List GoString))
    (p : GoString) (fl : List GoString) (rd : GoMap (List GoString)) :
    Spec.resourceObject (postRes r prepath fields relData) p fl rd = Spec.resourceObject r p fl rd :=
  resourceObject_sameUpToToMany (post_sameUpToToMany hr prepath fields relData) p fl rd []

/-! ### collections and documents -/

abbrev ColAcc := Res (List Json × List ResView)

/-- a loop that marshals the resources of a list one after the other leaves their post-states -/
theorem fold_post_generic (F : ColAcc → ResView → ColAcc) (post : ResView → ResView)
    (hF : ∀ js rs r js' rs', F (.ok (js, rs)) r = .ok (js', rs') → rs' = rs ++ [post r])
    (hE : ∀ r, F .err r = .err) (hP : ∀ r, F .panic r = .panic) :
    ∀ (l : List ResView) js rs js1 rs1, l.foldl F (.ok (js, rs)) = .ok (js1, rs1) →
      rs1 = rs ++ l.map post := by
  have herr : ∀ l : List ResView, l.foldl F .err = .err := by
    intro l; induction l with
    | nil => rfl
    | cons a l ih => rw [List.foldl_cons, hE]; exact ih
  have hpanic : ∀ l : List ResView, l.foldl F .panic = .panic := by
    intro l; induction l with
    | nil => rfl
    | cons a l ih => rw [List.foldl_cons, hP]; exact ih
  intro l
  induction l with
  | nil =>
    intro js rs js1 rs1 h
    simp only [List.foldl_nil, Res.ok.injEq, Prod.mk.injEq] at h
    simp [h.2]
  | cons a l ih =>
    intro js rs js1 rs1 h
    rw [List.foldl_cons] at h
    cases hs : F (.ok (js, rs)) a with
    | ok x =>
      obtain ⟨js', rs'⟩ := x
      rw [hs] at h
      rw [ih js' rs' js1 rs1 h, hF js rs a js' rs' hs]
      simp
    | err => rw [hs, herr] at h; cases h
    | panic => rw [hs, hpanic] at h; cases h

/-- the resource of a document after `MarshalDocument` marshaled it -/
def postR (d : Document) (f : GoMap (List GoString)) (r : ResView) : ResView :=
  postRes r d.prePath ((f.get? r.typeName).getD []) d.relData

/-- `MarshalDocument` writes no data member: data of an unknown type, or no data in a document
with errors (then the included resources are sorted but not marshaled) -/
def noData (d : Document) : Bool :=
  match d.data with
  | .other => true
  | .none => !d.errors.isEmpty
  | _ => false

/-- The document as `MarshalDocument` leaves it: the included list sorted by ID, and every
resource it marshaled as `MarshalResource` leaves it. -/
def postDoc (d : Document) (f : GoMap (List GoString)) : Document :=
  { d with data := mapRes (postR d f) d.data,
           included := if noData d then sortById d.included
                       else (sortById d.included).map (postR d f) }

theorem marshalCollection_post {c : List ResView} {prepath : GoString}
    {fields relData : GoMap (List GoString)} {j : Json} {c' : List ResView}
    (h : marshalCollection c prepath fields relData = .ok (j, c')) :
    c' = c.map (fun r => postRes r prepath ((fields.get? r.typeName).getD []) relData) := by
  unfold marshalCollection at h
  simp only [] at h
  split at h
  · rename_i js rs hfold
    simp only [Res.ok.injEq, Prod.mk.injEq] at h
    rw [← h.2]
    have := fold_post_generic _
      (fun r => postRes r prepath ((fields.get? r.typeName).getD []) relData) ?_ (fun _ => rfl)
      (fun _ => rfl) c [] [] js rs hfold
    · simpa using this
    · intro js rs r js' rs' hs
      simp only [] at hs
      split at hs
      · rename_i j r' hm
        simp only [Res.ok.injEq, Prod.mk.injEq] at hs
        rw [← hs.2, marshalResource_post hm]
      · cases hs
      · cases hs
  · cases h
  · cases h

theorem sortById_nil_if (l : List ResView) :
    (if l.isEmpty = true then [] else sortById l) = sortById l := by
  cases l with
  | nil => rfl
  | cons a l => rfl

theorem marshalDocument_post {d : Document} {f : GoMap (List GoString)} {s : GoString} {t : Json}
    {d' : Document} (h : marshalDocument d f s = .ok (t, d')) : d' = postDoc d f := by
  unfold marshalDocument at h
  simp only [] at h
  split at h
  · rename_i data data' hdata
    split at h
    · rename_i incs incs' hinc
      simp only [Res.ok.injEq, Prod.mk.injEq] at h
      rw [← h.2]
      have hd : data' = mapRes (postR d f) d.data ∧ data.isNone = noData d := by
        unfold noData
        split at hdata
        · rename_i r hdd
          rw [hdd]
          split at hdata
          · rename_i j r' hm
            simp only [Res.ok.injEq, Prod.mk.injEq] at hdata
            rw [← hdata.1, ← hdata.2, marshalResource_post hm]
            exact ⟨rfl, rfl⟩
          · cases hdata
          · cases hdata
        · rename_i tn ms hdd
          rw [hdd]
          split at hdata
          · rename_i j ms' hm
            simp only [Res.ok.injEq, Prod.mk.injEq] at hdata
            rw [← hdata.1, ← hdata.2, marshalCollection_post hm]
            exact ⟨rfl, rfl⟩
          · cases hdata
          · cases hdata
        · rename_i id typ hdd
          simp only [Res.ok.injEq, Prod.mk.injEq] at hdata
          rw [← hdata.1, ← hdata.2, hdd]
          exact ⟨rfl, rfl⟩
        · rename_i b l hdd
          simp only [Res.ok.injEq, Prod.mk.injEq] at hdata
          rw [← hdata.1, ← hdata.2, hdd]
          exact ⟨rfl, rfl⟩
        · rename_i hdd
          split at hdata
          · cases hdata
          · simp only [Res.ok.injEq, Prod.mk.injEq] at hdata
            rw [← hdata.1, ← hdata.2, hdd]
            exact ⟨rfl, rfl⟩
        · rename_i hdd
          simp only [Res.ok.injEq, Prod.mk.injEq] at hdata
          rw [← hdata.1, ← hdata.2, hdd]
          refine ⟨rfl, ?_⟩
          cases d.errors.isEmpty <;> rfl
      have hi : incs' = if noData d then sortById d.included
          else (sortById d.included).map (postR d f) := by
        rw [sortById_nil_if] at hinc
        rw [hd.2] at hinc
        by_cases hn : noData d = true
        · rw [hn] at hinc
          simp only [or_true, if_true, Res.ok.injEq, Prod.mk.injEq] at hinc
          rw [hn, if_pos rfl, hinc.2]
        · have hn' : noData d = false := by simpa using hn
          rw [hn'] at hinc ⊢
          simp only [Bool.false_eq_true, or_false, if_false] at hinc ⊢
          split at hinc
          · rename_i he
            simp only [Res.ok.injEq, Prod.mk.injEq] at hinc
            rw [← hinc.2]
            have : sortById d.included = [] := by simpa using he
            rw [this]; rfl
          · have := fold_post_generic _ (postR d f) ?_ (fun _ => rfl) (fun _ => rfl)
              (sortById d.included) [] [] incs incs' hinc
            · simpa using this
            · intro js rs r js' rs' hs
              simp only [] at hs
              split at hs
              · rename_i j r' hm
                simp only [Res.ok.injEq, Prod.mk.injEq] at hs
                rw [← hs.2, marshalResource_post hm]
                rfl
              · cases hs
              · cases hs
      unfold postDoc
      rw [hd.1, hi]
    · cases h
    · cases h
  · cases h
  · cases h

/-! ### the post-state is a fixed point -/

theorem postR_struct (d : Document) (f : GoMap (List GoString)) (r : ResView) :
    (postR d f r).typeName = r.typeName ∧ (postR d f r).id = r.id ∧
    (postR d f r).attrs = r.attrs ∧ (postR d f r).rels = r.rels :=
  postRes_struct r _ _ _

theorem postR_idem (d : Document) (f : GoMap (List GoString)) (r : ResView) :
    postR d f (postR d f r) = postR d f r := by
  unfold postR
  rw [(postRes_struct r _ _ _).1]
  exact postRes_idem r _ _ _

theorem postR_postDoc (d : Document) (f : GoMap (List GoString)) :
    postR (postDoc d f) f = postR d f := rfl

theorem noData_postDoc (d : Document) (f : GoMap (List GoString)) :
    noData (postDoc d f) = noData d := by
  unfold noData postDoc
  cases d.data <;> rfl

/-- Marshaling the document a marshal left behind leaves it exactly as it is. For EVERY
document. -/
theorem postDoc_idem (d : Document) (f : GoMap (List GoString)) :
    postDoc (postDoc d f) f = postDoc d f := by
  have h1 : (postDoc (postDoc d f) f).data = (postDoc d f).data := by
    show mapRes (postR (postDoc d f) f) (mapRes (postR d f) d.data) = mapRes (postR d f) d.data
    rw [postR_postDoc]
    cases d.data <;> simp [mapRes, postR_idem]
  have h2 : (postDoc (postDoc d f) f).included = (postDoc d f).included := by
    show (if noData (postDoc d f) = true then sortById (postDoc d f).included
      else (sortById (postDoc d f).included).map (postR (postDoc d f) f)) = (postDoc d f).included
    rw [noData_postDoc, postR_postDoc]
    show (if noData d = true then
        sortById (if noData d = true then sortById d.included
          else (sortById d.included).map (postR d f))
      else (sortById (if noData d = true then sortById d.included
          else (sortById d.included).map (postR d f))).map (postR d f)) =
      (if noData d = true then sortById d.included
        else (sortById d.included).map (postR d f))
    cases noData d
    · simp only [Bool.false_eq_true, if_false]
      rw [sortById_map_of_sorted _ (fun r => (postR_struct d f r).2.1), List.map_map]
      apply List.map_congr_left
      intro r _
      exact postR_idem d f r
    · simp only [if_true]
      exact sortById_idem _
  show ({ postDoc d f with data := (postDoc (postDoc d f) f).data,
                           included := (postDoc (postDoc d f) f).included } : Document) = postDoc d f
  rw [h1, h2]

/-! ### on the domain -/

theorem dataResources_eq_docPrimary (d : Document) : dataResources d.data = docPrimary d := by
  unfold dataResources docPrimary
  cases d.data <;> rfl

/-- the resources of the document left behind are the post-states (or, for included resources
that were not marshaled, the resources themselves) of the original's -/
theorem docResources_postDoc {d : Document} {f : GoMap (List GoString)} {r' : ResView}
    (h : r' ∈ docResources (postDoc d f)) :
    ∃ r ∈ docResources d, r' = r ∨ r' = postR d f r := by
  unfold docResources at h ⊢
  rcases List.mem_append.1 h with h1 | h2
  · have : docPrimary (postDoc d f) = (docPrimary d).map (postR d f) := by
      unfold docPrimary postDoc mapRes
      cases d.data <;> simp
    rw [this] at h1
    obtain ⟨r, hr, e⟩ := List.mem_map.1 h1
    exact ⟨r, List.mem_append_left _ hr, .inr e.symm⟩
  · unfold postDoc at h2
    simp only at h2
    split at h2
    · exact ⟨r', List.mem_append_right _ ((DetL.sortById_perm _).mem_iff.1 h2), .inl rfl⟩
    · obtain ⟨r, hr, e⟩ := List.mem_map.1 h2
      exact ⟨r, List.mem_append_right _ ((DetL.sortById_perm _).mem_iff.1 hr), .inr e.symm⟩

theorem postDoc_dom {d : Document} (hdom : ∀ r ∈ docResources d, r.keyedWf)
    (f : GoMap (List GoString)) : ∀ r ∈ docResources (postDoc d f), r.keyedWf := by
  intro r' h
  obtain ⟨r, hr, e | e⟩ := docResources_postDoc h
  · rw [e]; exact hdom r hr
  · rw [e]; exact post_keyedWf (hdom r hr) _ _ _

/-- on the domain the document left behind has the same tree, for every selection and link -/
theorem postDoc_tree {d : Document} (hdom : ∀ r ∈ docResources d, r.keyedWf)
    (f f' : GoMap (List GoString)) (s : GoString) :
    Spec.documentTree (postDoc d f) f' s = Spec.documentTree d f' s := by
  have hg : ∀ r ∈ dataResources d.data, ∀ p fl rd,
      Spec.resourceObject (postR d f r) p fl rd = Spec.resourceObject r p fl rd := by
    intro r hr p fl rd
    rw [dataResources_eq_docPrimary] at hr
    exact post_resourceObject (hdom r (List.mem_append_left _ hr)) _ _ _ p fl rd
  have hh : ∀ r ∈ d.included, ∀ p fl rd,
      Spec.resourceObject (postR d f r) p fl rd = Spec.resourceObject r p fl rd := by
    intro r hr p fl rd
    exact post_resourceObject (hdom r (List.mem_append_right _ hr)) _ _ _ p fl rd
  unfold postDoc
  cases noData d
  · simp only [Bool.false_eq_true, if_false]
    exact documentTree_after (postR d f) (postR d f) d f' s (fun r => (postR_struct d f r).1)
      (fun r => (postR_struct d f r).1) (fun r => (postR_struct d f r).2.1) hg hh
  · simp only [if_true]
    have := documentTree_after (postR d f) id d f' s (fun r => (postR_struct d f r).1)
      (fun _ => rfl) (fun _ => rfl) hg (fun _ _ _ _ _ => rfl)
    rw [List.map_id] at this
    exact this

end RepL
end Jsonapi
