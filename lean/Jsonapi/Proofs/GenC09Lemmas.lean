/-
Lemmas for Props/GenC09.lean: the rule loop of `sortedResources.Less` as the translator prints it
(a fold with an early result, stated for any step function with the printed behaviour), the byte
loop of its `[]byte` case, and the model's `lessVal` against a value of another Go type.
-/
import Jsonapi.Proofs.GenC10bLemmas
import Jsonapi.Proofs.RangeLemmas
namespace Jsonapi
set_option linter.unusedSimpArgs false
set_option linter.unusedVariables false

/-- what one sorting rule decides in `Less`: a result, nothing (`continue`), or a panic -/
def ruleOutcome (a b : ResView) (r : GoString) : Option (Res Bool) :=
  let (inverse, name) := splitRule r
  if name = idName then some (.ok (xorInv (decide (a.id < b.id)) inverse))
  else match lessVal inverse (getAttrVal a name) (getAttrVal b name) with
    | .decided x => some (.ok x)
    | .tie => none
    | .panic => some .panic

def lessOpt (a b : ResView) : List GoString → Option (Res Bool)
  | [] => none
  | r :: rest => match ruleOutcome a b r with
    | some v => some v
    | none => lessOpt a b rest

theorem less_eq_lessOpt (a b : ResView) (rules : List GoString) :
    less rules a b = (lessOpt a b rules).getD (.ok false) := by
  induction rules with
  | nil => rfl
  | cons r rest ih =>
    simp only [less, lessOpt, ruleOutcome]
    rcases hs : splitRule r with ⟨inverse, name⟩
    simp only []
    by_cases hid : name = idName
    · simp [hid]
    · simp only [hid, if_false]
      cases hl : lessVal inverse (getAttrVal a name) (getAttrVal b name) <;> simp [ih]

theorem less_fold (a b : ResView) (f : Option (Res Bool) → GoString × Nat → Option (Res Bool))
    (h1 : ∀ v p, f (some v) p = some v)
    (h0 : ∀ r n, f none (r, n) = ruleOutcome a b r)
    (rules : List GoString) (n : Nat) :
    (rules.zipIdx n).foldl f none = lessOpt a b rules := by
  induction rules generalizing n with
  | nil => rfl
  | cons r rest ih =>
    simp only [List.zipIdx_cons, List.foldl_cons, h0, lessOpt]
    cases ho : ruleOutcome a b r with
    | none => exact ih (n + 1)
    | some v => exact foldl_fix f (some v) (fun p => h1 v p) _



/-- the Go type of the kind (nullable or not) has a case in the type switch of `Less` on this tree -/
def hasCase : Kind → Bool → Bool
  | .uint64, _ => false
  | .bytes, true => false
  | _, _ => true

theorem hasCase_spec (k : Kind) (n : Bool) : (caseName k n ∈ Facts.lessCases) ↔ hasCase k n = true := by
  cases k <;> cases n <;> decide

theorem lessVal_val_gen (inv : Bool) (k : Kind) (p : Pay) (c : GoVal) :
    lessVal inv (.val k p) c =
      if hasCase k false = true then
        (match c with
          | .val k' p' => if k = k' then lessPay inv p p' else .panic
          | _ => .panic)
      else .tie := by
  unfold lessVal
  have htn : (if (GoVal.val k p).goType = "[]uint8" then "[]byte"
     else if (GoVal.val k p).goType = "*[]uint8" then "*[]byte" else (GoVal.val k p).goType)
     = caseName k false := tn_val k
  simp only [htn, hasCase_spec]
  by_cases hc : hasCase k false = true
  · simp only [hc, not_true_eq_false, if_false, if_true]
    cases c <;> rfl
  · simp [hc]

theorem lessVal_ptr_gen (inv : Bool) (k : Kind) (p : Option Pay) (c : GoVal) :
    lessVal inv (.ptr k p) c =
      if hasCase k true = true then
        (match c with
          | .ptr k' p' => if k ≠ k' then .panic else
            (match p, p' with
              | none, none => .tie
              | none, some _ => .decided (!inv)
              | some _, none => .decided inv
              | some a, some b => lessPay inv a b)
          | _ => .panic)
      else .tie := by
  unfold lessVal
  have htn : (if (GoVal.ptr k p).goType = "[]uint8" then "[]byte"
     else if (GoVal.ptr k p).goType = "*[]uint8" then "*[]byte" else (GoVal.ptr k p).goType)
     = caseName k true := tn_ptr k
  simp only [htn, hasCase_spec]
  by_cases hc : hasCase k true = true
  · simp only [hc, not_true_eq_false, if_false, if_true]
    cases c <;> rfl
  · simp [hc]

theorem noCase_other : ¬ (if "other" = "[]uint8" then "[]byte" else if "other" = "*[]uint8" then "*[]byte" else "other") ∈ Facts.lessCases := by decide
theorem noCase_nil : ¬ (if "<nil>" = "[]uint8" then "[]byte" else if "<nil>" = "*[]uint8" then "*[]byte" else "<nil>") ∈ Facts.lessCases := by decide
theorem noCase_strs : ¬ (if "[]string" = "[]uint8" then "[]byte" else if "[]string" = "*[]uint8" then "*[]byte" else "[]string") ∈ Facts.lessCases := by decide

theorem lessVal_nil (inv : Bool) (c : GoVal) : lessVal inv .nil c = .tie := by
  simp [lessVal, GoVal.goType, Facts.lessCases]
theorem lessVal_other (inv : Bool) (t : Nat) (c : GoVal) : lessVal inv (.other t) c = .tie := by
  simp [lessVal, GoVal.goType, Facts.lessCases]
theorem lessVal_strs (inv : Bool) (l : List GoString) (c : GoVal) : lessVal inv (.strs l) c = .tie := by
  simp [lessVal, GoVal.goType, Facts.lessCases]

/-- the byte loop of `Less`: decided at the first position where the two slices differ -/
def lexFirst (inv : Bool) : List UInt8 → List UInt8 → Option (Res Bool)
  | x :: xs, y :: ys => if x = y then lexFirst inv xs ys else some (.ok (xorInv (decide (x < y)) inv))
  | _, _ => none

theorem lexFirst_fold (inv : Bool) (x y : List UInt8) (f : Option (Res Bool) → Nat → Option (Res Bool))
    (h0 : ∀ i, f none i = if decide (x.getD i 0 = y.getD i 0) = true then none
      else some (Res.ok (xorInv (decide (x.getD i 0 < y.getD i 0)) inv)))
    (h1 : ∀ v i, f (some v) i = some v) :
    (List.range (min x.length y.length)).foldl f none = lexFirst inv x y := by
  induction x generalizing y f with
  | nil => simp [lexFirst]
  | cons a x ih =>
    cases y with
    | nil => simp [lexFirst]
    | cons b y =>
      simp only [List.length_cons, Nat.succ_min_succ, List.range_succ_eq_map, List.foldl_cons, List.foldl_map, lexFirst]
      rw [h0 0]
      simp only [List.getD_cons_zero]
      by_cases hab : a = b
      · subst hab
        simp only [decide_true, if_true]
        exact ih y (fun r i => f r (i + 1)) (fun i => by rw [h0 (i + 1)]; simp only [List.getD_cons_succ]) (fun v i => h1 v (i + 1))
      · simp only [hab, decide_false, Bool.false_eq_true, if_false]
        exact foldl_fix (fun r i => f r (i + 1)) _ (fun i => h1 _ _) _

theorem lexFirst_some (inv : Bool) (x y : List UInt8) (r : Res Bool) (h : lexFirst inv x y = some r) :
    x ≠ y ∧ r = .ok (xorInv (decide (x < y)) inv) := by
  induction x generalizing y with
  | nil => simp [lexFirst] at h
  | cons a x ih =>
    cases y with
    | nil => simp [lexFirst] at h
    | cons b y =>
      simp only [lexFirst] at h
      by_cases hab : a = b
      · subst hab
        simp only [if_true] at h
        obtain ⟨h1, h2⟩ := ih y h
        refine ⟨fun e => h1 (List.cons.inj e).2, ?_⟩
        rw [h2]
        have : (a :: x < a :: y) ↔ x < y := by
          rw [List.cons_lt_cons_iff]; simp [UInt8.lt_irrefl]
        simp only [this]
      · simp only [hab, if_false, Option.some.injEq] at h
        refine ⟨fun e => hab (List.cons.inj e).1, ?_⟩
        rw [← h]
        have : (a :: x < b :: y) ↔ a < b := by
          rw [List.cons_lt_cons_iff]; simp [hab]
        simp only [this]

theorem lexFirst_none (inv : Bool) (x y : List UInt8) (h : lexFirst inv x y = none) :
    (x = y ↔ x.length = y.length) ∧ (x < y ↔ x.length < y.length) := by
  induction x generalizing y with
  | nil =>
    cases y with
    | nil => simp
    | cons b y => simp
  | cons a x ih =>
    cases y with
    | nil => simp
    | cons b y =>
      simp only [lexFirst] at h
      by_cases hab : a = b
      · subst hab
        simp only [if_true] at h
        obtain ⟨h1, h2⟩ := ih y h
        constructor
        · simp [h1]
        · rw [List.cons_lt_cons_iff]; simp [UInt8.lt_irrefl, h2]
      · simp [hab] at h


theorem bytesOf_getD (a : Option (List UInt8)) : Pay.bytesOf a = a.getD [] := by cases a <;> rfl

theorem splitRule_eq (r : GoString) :
    (if hasPrefix r [45] = true then (true, List.drop 1 r) else (false, r)) = splitRule r := by
  cases r with
  | nil => rfl
  | cons c t =>
    by_cases hc : c = 45
    · subst hc; rfl
    · have : hasPrefix (c :: t) [45] = false := by
        simp only [hasPrefix, List.isPrefixOf, Bool.and_eq_false_imp, beq_iff_eq]
        intro h; exact absurd h.symm hc
      simp only [this, Bool.false_eq_true, if_false]
      unfold splitRule
      split
      · rename_i h; injection h with h1 h2; exact absurd h1 hc
      · rfl

theorem xorInv_not (v i : Bool) : xorInv (!v) i = !xorInv v i := by
  cases v <;> cases i <;> rfl

theorem Time.equal_self (a : Time) : a.equal a = true := by simp [Time.equal]

theorem decide_eq_bool (x y : Bool) : decide (x = y) = !xorInv x y := by
  cases x <;> cases y <;> rfl

theorem decide_ne_bool (x y : Bool) : decide (x ≠ y) = xorInv x y := by
  cases x <;> cases y <;> rfl

-- closes the second goal of `split` on the assertion of v2's type: v2 is not of the Go type of kind K
set_option hygiene false in
macro "less_other_type" K:term : tactic => `(tactic| (
  rename_i h
  cases v2 with
  | val k' p' =>
    by_cases hk : $K = k'
    · subst hk
      cases p' <;> simp [GoVal.WF, Kind.payOk, Kind.range?] at wv2
      first
      | exact absurd rfl (h _)
      | (rename_i w; obtain ⟨m, rfl⟩ := Int.eq_ofNat_of_zero_le wv2.1; exact absurd rfl (h m))
    · simp [hk]
  | _ => rfl))

set_option hygiene false in
macro "less_ptr" K:term : tactic => `(tactic| (
  rw [lessVal_ptr_gen]; simp only [hasCase, if_true, Option.isNone_none, Option.isNone_some]
  cases v2 with
  | ptr k' p' =>
    by_cases hk : $K = k'
    · subst hk
      cases p' with
      | none => simp
      | some q' =>
        cases q' <;> simp [GoVal.WF, Kind.payOk, Kind.range?] at wv2 <;>
        (try (rename_i w'; obtain ⟨m', rfl⟩ := Int.eq_ofNat_of_zero_le wv2.1)) <;>
        simp [lessPay, decide_ne_bool, Int.natCast_inj, Int.ofNat_lt] <;>
        (repeat' split) <;> simp_all [decide_eq_bool, Int.natCast_inj, Int.ofNat_lt, xorInv_not, Time.equal_self]
    · have hk' : ¬ k' = $K := fun e => hk e.symm
      simp [hk, hk']
  | _ => simp))


end Jsonapi
