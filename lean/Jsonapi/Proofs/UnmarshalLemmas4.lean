/- Helper lemmas for C05 / C06 / C13, part 4: partial unmarshaling of a resource (a
SoftResource whose type grows with the payload). -/
import Jsonapi.Proofs.UnmarshalLemmas3
namespace Jsonapi
open GoMap
namespace UnmL

/-! ### sub-types -/

/-- Every field definition of `t1` is a field definition of `t2`. -/
def Sub (t1 t2 : Typ) : Prop :=
  (∀ f a, t1.attrs.get? f = some a → t2.attrs.get? f = some a) ∧
  (∀ f r, t1.rels.get? f = some r → t2.rels.get? f = some r)

theorem Sub.refl (t : Typ) : Sub t t := ⟨fun _ _ h => h, fun _ _ h => h⟩

theorem Sub.attrKeys {t1 t2 : Typ} (s : Sub t1 t2) {f : GoString} (hf : f ∈ t1.attrs.keys) :
    f ∈ t2.attrs.keys := by
  obtain ⟨a, ha⟩ := exists_get?_of_mem_keys hf
  exact mem_keys_of_get? (s.1 f a ha)

theorem Sub.relKeys {t1 t2 : Typ} (s : Sub t1 t2) {f : GoString} (hf : f ∈ t1.rels.keys) :
    f ∈ t2.rels.keys := by
  obtain ⟨a, ha⟩ := exists_get?_of_mem_keys hf
  exact mem_keys_of_get? (s.2 f a ha)

theorem Sub.fieldKeys {t1 t2 : Typ} (s : Sub t1 t2) {f : GoString} (hf : f ∈ t1.fieldKeys) :
    f ∈ t2.fieldKeys := by
  rcases List.mem_append.1 hf with h | h
  · exact List.mem_append_left _ (s.attrKeys h)
  · exact List.mem_append_right _ (s.relKeys h)

theorem Sub.namesOk_mono {t1 t2 : Typ} (s : Sub t1 t2) (hn : Spec.namesOk t2 = true) :
    Spec.namesOk t1 = true := by
  unfold Spec.namesOk
  rw [List.all_eq_true]
  intro f hf
  have := namesOk_mem hn (s.fieldKeys hf)
  simp [this.1, this.2]

theorem Sub.rawZero_eq {t1 t2 : Typ} (s : Sub t1 t2) (wf1 : TypWF t1) (wf2 : TypWF t2) {f : GoString}
    (hf : f ∈ t1.fieldKeys) : rawZero t2 f = rawZero t1 f := by
  unfold rawZero
  rcases List.mem_append.1 hf with h | h
  · obtain ⟨a, ha⟩ := exists_get?_of_mem_keys h
    rw [ha, s.1 f a ha]
  · obtain ⟨r, hr⟩ := exists_get?_of_mem_keys h
    rw [(rel_of_get? wf1 hr).2.2.2, (rel_of_get? wf2 (s.2 f r hr)).2.2.2, hr, s.2 f r hr]

theorem Sub.zeroOf_eq {t1 t2 : Typ} (s : Sub t1 t2) (wf1 : TypWF t1) (wf2 : TypWF t2) {f : GoString}
    (hf : f ∈ t1.fieldKeys) : Spec.zeroOf t2 f = Spec.zeroOf t1 f := by
  rw [← canon_rawZero, ← canon_rawZero, s.rawZero_eq wf1 wf2 hf]

theorem Sub.specGet_eq {t1 t2 : Typ} (s : Sub t1 t2) (wf1 : TypWF t1) (wf2 : TypWF t2) (h : Hist)
    {f : GoString} (hf : f ∈ t1.fieldKeys) : Spec.specGet t2 h f = Spec.specGet t1 h f := by
  unfold Spec.specGet
  cases h.reverse.find? (fun p => p.1 = f) with
  | some p => rfl
  | none => exact s.zeroOf_eq wf1 wf2 hf

theorem setOk_key {t : Typ} {k : GoString} {v : GoVal} (h : Spec.setOk t k v = true) :
    k = idName ∨ k ∈ t.fieldKeys := by
  by_cases e : k = idName
  · exact .inl e
  · exact .inr (setOk_field e h).1

theorem Sub.setOk_mono {t1 t2 : Typ} (s : Sub t1 t2) (_wf1 : TypWF t1) (wf2 : TypWF t2) {k : GoString}
    {v : GoVal} (h : Spec.setOk t1 k v = true) : Spec.setOk t2 k v = true := by
  unfold Spec.setOk at h ⊢
  by_cases e : k = idName
  · rw [if_pos e] at h ⊢; exact h
  · rw [if_neg e] at h ⊢
    cases ha : t1.attrs.get? k with
    | some a => rw [ha] at h; rw [s.1 k a ha]; exact h
    | none =>
      rw [ha] at h
      cases hr : t1.rels.get? k with
      | none => rw [hr] at h; cases h
      | some r =>
        rw [hr] at h
        rw [(rel_of_get? wf2 (s.2 k r hr)).2.2.2, s.2 k r hr]; exact h

/-- The invariant of a soft resource survives an extension of its type by fields that no
Set has touched yet. -/
theorem SoftInv.extend {t1 t2 : Typ} (wf1 : TypWF t1) (wf2 : TypWF t2)
    (hn2 : Spec.namesOk t2 = true) (sub : Sub t1 t2) {h : Hist} {s : Soft} (inv : SoftInv t1 h s)
    (hok : SetHistOk t1 h) : SoftInv t2 h { s with typ := t2 } := by
  refine ⟨rfl, inv.id, fun x hx => sub.fieldKeys (inv.keys x hx), ?_⟩
  intro f hf
  show Spec.canon ((s.data.get? f).getD (rawZero t2 f)) = _
  by_cases hf1 : f ∈ t1.fieldKeys
  · rw [sub.rawZero_eq wf1 wf2 hf1, sub.specGet_eq wf1 wf2 h hf1]
    exact inv.vals f hf1
  · have hd : s.data.get? f = none :=
      get?_eq_none_of_not_mem (fun hx => hf1 (inv.keys f hx))
    have hnot : f ∉ h.map (·.1) := by
      intro hm
      obtain ⟨p, hp, e⟩ := List.mem_map.1 hm
      have := setOk_key (hok p hp)
      rw [e] at this
      rcases this with e' | e'
      · exact (namesOk_mem hn2 hf).1 e'
      · exact hf1 e'
    rw [hd, specGet_of_not_mem _ _ _ hnot, Option.getD_none, canon_rawZero]

/-! ### the invariant of partial unmarshaling -/

/-- After the Sets of `h` the partial resource's type holds exactly the fields set so
far, each with the definition of the schema type `t`, and reads as the abstract resource. -/
structure PInv (t : Typ) (h : Hist) (s : Soft) : Prop where
  wf : TypWF s.typ
  name : s.typ.name = t.name
  sub : Sub s.typ t
  inv : SoftInv s.typ h s
  hok : SetHistOk s.typ h
  flds : ∀ f, f ∈ s.typ.fieldKeys ↔ (f ≠ idName ∧ f ∈ h.map (·.1))

theorem PInv.extend_set {t : Typ} (_ht : TypWF t) (hn : Spec.namesOk t = true) {h : Hist} {s : Soft}
    (inv : PInv t h s) (t2 : Typ) (wf2 : TypWF t2) (name2 : t2.name = t.name) (sub2 : Sub t2 t)
    (sub12 : Sub s.typ t2) (k : GoString) (v : GoVal)
    (hflds : ∀ f, f ∈ t2.fieldKeys ↔ f ∈ s.typ.fieldKeys ∨ f = k)
    (hok : Spec.setOk t2 k v = true) :
    PInv t (h ++ [(k, v)]) (({ s with typ := t2 } : Soft).set k v) := by
  have hn2 := sub2.namesOk_mono hn
  have inv2 : SoftInv t2 h { s with typ := t2 } := SoftInv.extend inv.wf wf2 hn2 sub12 inv.inv inv.hok
  have step := SoftInv.step wf2 hn2 inv2 k v hok
  have hk : k ≠ idName := (namesOk_mem hn2 ((hflds k).2 (.inr rfl))).1
  refine ⟨by rw [step.typ]; exact wf2, by rw [step.typ]; exact name2, by rw [step.typ]; exact sub2,
    by rw [step.typ]; exact step, ?_, ?_⟩
  · rw [step.typ]
    intro p hp
    rcases List.mem_append.1 hp with hp | hp
    · exact sub12.setOk_mono inv.wf wf2 (inv.hok p hp)
    · simp only [List.mem_singleton] at hp; subst hp; exact hok
  · intro f
    rw [step.typ, hflds f, inv.flds f]
    simp only [List.map_append, List.map_cons, List.map_nil, List.mem_append, List.mem_singleton]
    constructor
    · rintro (⟨h1, h2⟩ | e)
      · exact ⟨h1, .inl h2⟩
      · exact ⟨e ▸ hk, .inr e⟩
    · rintro ⟨h1, h2 | e⟩
      · exact .inl ⟨h1, h2⟩
      · exact .inr e

theorem keys_set_of_not_mem {β : Type} (m : GoMap β) (k : GoString) (v : β) (h : k ∉ keys m) :
    keys (m.set k v) = keys m ++ [k] := by
  rw [set_of_not_mem m k v h]; simp [keys]

theorem addAttr_ext {t1 t : Typ} (wf1 : TypWF t1) (wft : TypWF t) (sub : Sub t1 t) {f : GoString}
    {a : Attr} (ha : t.attrs.get? f = some a) :
    TypWF (t1.addAttr a).1 ∧ (t1.addAttr a).1.name = t1.name ∧ Sub (t1.addAttr a).1 t ∧
    Sub t1 (t1.addAttr a).1 ∧ (t1.addAttr a).1.attrs.get? a.name = some a ∧
    (∀ g, g ∈ (t1.addAttr a).1.fieldKeys ↔ g ∈ t1.fieldKeys ∨ g = a.name) := by
  obtain ⟨e, _, _⟩ := attr_of_get? wft ha
  subst e
  obtain ⟨_, hne, h1, h2⟩ := wft.attrs _ (mem_of_get? ha)
  refine ⟨Typ.addAttr_wf wf1 a, Typ.addAttr_name t1 a, ?_⟩
  have hvalid : attrTypeStringNonEmpty a.ty a.nullable = true := by
    simp [attrTypeStringNonEmpty, h1, h2]
  by_cases hu : a.name ∈ t1.attrs.keys
  · have e : (t1.addAttr a).1 = t1 := by
      unfold Typ.addAttr
      simp [hne, hvalid, (Typ.attrNameUsed_iff wf1 a.name).2 hu]
    rw [e]
    refine ⟨sub, Sub.refl t1, ?_, ?_⟩
    · obtain ⟨a', ha'⟩ := exists_get?_of_mem_keys hu
      have := sub.1 _ _ ha'
      rw [ha] at this; cases this; exact ha'
    · intro g
      constructor
      · exact fun h => .inl h
      · rintro (h | h)
        · exact h
        · rw [h]; exact List.mem_append_left _ hu
  · have hr : a.name ∉ t1.rels.keys := by
      intro hr
      exact wft.disj a.name (mem_keys_of_get? ha) (sub.relKeys hr)
    have e : (t1.addAttr a).1 = { t1 with attrs := t1.attrs.set a.name a } := by
      unfold Typ.addAttr
      have n1 : t1.attrNameUsed a.name = false := by
        rw [Bool.eq_false_iff]; exact fun h => hu ((Typ.attrNameUsed_iff wf1 a.name).1 h)
      have n2 : t1.relNameUsed a.name = false := by
        rw [Bool.eq_false_iff]; exact fun h => hr ((Typ.relNameUsed_iff wf1 a.name).1 h)
      simp [hne, hvalid, n1, n2]
    rw [e]
    refine ⟨⟨?_, fun g r h => sub.2 g r h⟩, ⟨?_, fun g r h => h⟩, get?_set_self _ _ _, ?_⟩
    · intro g x hg
      simp only at hg
      by_cases eg : g = a.name
      · subst eg; rw [get?_set_self] at hg; cases hg; exact ha
      · rw [get?_set_ne _ _ _ _ eg] at hg; exact sub.1 g x hg
    · intro g x hg
      simp only
      have eg : g ≠ a.name := by
        intro eg; subst eg; exact hu (mem_keys_of_get? hg)
      rw [get?_set_ne _ _ _ _ eg]; exact hg
    · intro g
      simp only [Typ.fieldKeys, keys_set_of_not_mem _ _ _ hu, List.mem_append, List.mem_singleton]
      constructor
      · rintro ((h | h) | h)
        · exact .inl (.inl h)
        · exact .inr h
        · exact .inl (.inr h)
      · rintro ((h | h) | h)
        · exact .inl (.inl h)
        · exact .inr h
        · exact .inl (.inr h)

theorem addRel_ext {t1 t : Typ} (wf1 : TypWF t1) (wft : TypWF t) (sub : Sub t1 t) {f : GoString}
    {r : Rel} (hr : t.rels.get? f = some r) :
    TypWF (t1.addRel r).1 ∧ (t1.addRel r).1.name = t1.name ∧ Sub (t1.addRel r).1 t ∧
    Sub t1 (t1.addRel r).1 ∧ (t1.addRel r).1.rels.get? r.fromName = some r ∧
    (∀ g, g ∈ (t1.addRel r).1.fieldKeys ↔ g ∈ t1.fieldKeys ∨ g = r.fromName) := by
  obtain ⟨e, hne, hto, _⟩ := rel_of_get? wft hr
  subst e
  refine ⟨Typ.addRel_wf wf1 r, Typ.addRel_name t1 r, ?_⟩
  by_cases hu : r.fromName ∈ t1.rels.keys
  · have e : (t1.addRel r).1 = t1 := by
      unfold Typ.addRel
      simp [hne, hto, (Typ.relNameUsed_iff wf1 r.fromName).2 hu]
    rw [e]
    refine ⟨sub, Sub.refl t1, ?_, ?_⟩
    · obtain ⟨r', hr'⟩ := exists_get?_of_mem_keys hu
      have := sub.2 _ _ hr'
      rw [hr] at this; cases this; exact hr'
    · intro g
      constructor
      · exact fun h => .inl h
      · rintro (h | h)
        · exact h
        · rw [h]; exact List.mem_append_right _ hu
  · have ha : r.fromName ∉ t1.attrs.keys := by
      intro ha
      exact wft.disj r.fromName (sub.attrKeys ha) (mem_keys_of_get? hr)
    have e : (t1.addRel r).1 = { t1 with rels := t1.rels.set r.fromName r } := by
      unfold Typ.addRel
      have n1 : t1.attrNameUsed r.fromName = false := by
        rw [Bool.eq_false_iff]; exact fun h => ha ((Typ.attrNameUsed_iff wf1 r.fromName).1 h)
      have n2 : t1.relNameUsed r.fromName = false := by
        rw [Bool.eq_false_iff]; exact fun h => hu ((Typ.relNameUsed_iff wf1 r.fromName).1 h)
      simp [hne, hto, n1, n2]
    rw [e]
    refine ⟨⟨fun g x h => sub.1 g x h, ?_⟩, ⟨fun g x h => h, ?_⟩, get?_set_self _ _ _, ?_⟩
    · intro g x hg
      simp only at hg
      by_cases eg : g = r.fromName
      · subst eg; rw [get?_set_self] at hg; cases hg; exact hr
      · rw [get?_set_ne _ _ _ _ eg] at hg; exact sub.2 g x hg
    · intro g x hg
      simp only
      have eg : g ≠ r.fromName := by
        intro eg; subst eg; exact hu (mem_keys_of_get? hg)
      rw [get?_set_ne _ _ _ _ eg]; exact hg
    · intro g
      simp only [Typ.fieldKeys, keys_set_of_not_mem _ _ _ hu, List.mem_append, List.mem_singleton]
      constructor
      · rintro (h | h | h)
        · exact .inl (.inl h)
        · exact .inl (.inr h)
        · exact .inr h
      · rintro ((h | h) | h)
        · exact .inl h
        · exact .inr (.inl h)
        · exact .inr (.inr h)

/-! ### the two loops of `UnmarshalPartialResource` -/

def pAttrStep (t : Typ) (acc : Res Soft) (p : GoString × RawVal) : Res Soft :=
  match acc with
  | .ok s =>
    (match t.attrs.get? p.1 with
      | some a => (match unmarshalToType a p.2 with
        | .ok v => .ok (({ s with typ := (s.typ.addAttr a).1 } : Soft).set a.name v)
        | .err => .err
        | .panic => .panic)
      | none => .err)
  | e => e

def pRelStep (t : Typ) (acc : Res Soft) (p : GoString × RelRaw) : Res Soft :=
  match acc with
  | .ok s =>
    (match t.rels.get? p.1 with
      | some rel =>
        let (v, bad) := relValue rel p.2
        (match v with
          | some x =>
            let s' := ({ s with typ := (s.typ.addRel rel).1 } : Soft).set rel.fromName x
            if bad then .err else .ok s'
          | none => if bad then .err else .ok s)
      | none => .err)
  | e => e

def partInit (t : Typ) (sk : ResSke) : Soft :=
  { typ := { name := t.name, attrs := [], rels := [] }, id := sk.id, data := [] }

def partBody (st : SType) (sk : ResSke) : Res Soft :=
  sk.rels.foldl (pRelStep st.typ) (sk.attrs.foldl (pAttrStep st.typ) (.ok (partInit st.typ sk)))

theorem unmarshalPartialResource_eq (σ : SSchema) (sk : ResSke) :
    unmarshalPartialResource σ sk =
      match σ.getType sk.typ with
      | none => .err
      | some st => if st.typ.name = [] then .err else partBody st sk := rfl

theorem PInv.init (t : Typ) (sk : ResSke) : PInv t [idEntry sk] (partInit t sk) := by
  refine ⟨⟨by simp [partInit], by simp [partInit], by simp [partInit, keys], by simp [partInit, keys],
      by simp [partInit, keys]⟩, rfl, ⟨?_, ?_⟩, ⟨rfl, ?_, ?_, ?_⟩, ?_, ?_⟩
  · intro f a h; simp [partInit, get?] at h
  · intro f a h; simp [partInit, get?] at h
  · simp [partInit, Spec.specId, idEntry]
  · intro x hx; simp [partInit, keys] at hx
  · intro f hf; simp [partInit, Typ.fieldKeys, keys] at hf
  · intro p hp
    simp only [List.mem_singleton] at hp
    subst hp
    simp [idEntry, Spec.setOk]
  · intro f
    simp only [partInit, Typ.fieldKeys, keys, List.map_nil, List.append_nil, List.not_mem_nil,
      List.map_cons, List.mem_singleton, idEntry, false_iff, not_and]
    exact fun h => h

theorem setOk_attr {t2 : Typ} {a : Attr} {k : Kind} {v : GoVal} (hid : a.name ≠ idName)
    (hg : t2.attrs.get? a.name = some a) (hk : Kind.ofCode? a.ty = some k)
    (hv : v.hasAttrType k a.nullable = true) : Spec.setOk t2 a.name v = true := by
  unfold Spec.setOk
  rw [if_neg hid, hg]
  simp only [hk, hv, Bool.true_or]

theorem setOk_rel {t2 : Typ} (wf2 : TypWF t2) {rel : Rel} {x : GoVal} (hid : rel.fromName ≠ idName)
    (hg : t2.rels.get? rel.fromName = some rel)
    (hx : if rel.toOne then ∃ id, x = .val .string (.s id) else ∃ l, x = .strs l) :
    Spec.setOk t2 rel.fromName x = true := by
  unfold Spec.setOk
  rw [if_neg hid, (rel_of_get? wf2 hg).2.2.2, hg]
  by_cases ho : rel.toOne = true
  · rw [if_pos ho] at hx; obtain ⟨id, rfl⟩ := hx; simp [ho]
  · rw [if_neg ho] at hx; obtain ⟨l, rfl⟩ := hx; simp [ho]

theorem p_attr_fold {t : Typ} (ht : TypWF t) (hn : Spec.namesOk t = true) (l : GoMap RawVal)
    (h : Hist) (s : Soft) (inv : PInv t h s) :
    (attrsOk t l = true → ∃ s', l.foldl (pAttrStep t) (.ok s) = .ok s' ∧
      PInv t (h ++ l.filterMap (attrEntry t)) s') ∧
    (attrsOk t l = false → l.foldl (pAttrStep t) (.ok s) = .err) := by
  refine fold_inv (pAttrStep t) (fun _ => rfl) (PInv t) (attrEntry t) (fun p => (attrEntry t p).isSome)
    ?_ ?_ ?_ l h s inv
  · intro h s b e inv _ he
    obtain ⟨a, ha, hv, e1, e2⟩ := attrEntry_some ht he
    obtain ⟨_, _, k, hk⟩ := attr_of_get? ht ha
    obtain ⟨x1, x2, x3, x4, x5, x6⟩ := addAttr_ext inv.wf ht inv.sub ha
    have hid : a.name ≠ idName := by
      rw [e2]; exact (namesOk_mem hn (List.mem_append_left _ (mem_keys_of_get? ha))).1
    have hok := setOk_attr hid x5 hk (toType_hasAttrType a b.2 e.2 k hv hk)
    have := PInv.extend_set ht hn inv _ x1 (x2.trans inv.name) x3 x4 a.name e.2 x6 hok
    have ee : e = (a.name, e.2) := by rw [← e1.trans e2.symm]
    refine ⟨_, ?_, by rw [ee]; exact this⟩
    simp only [pAttrStep, ha, hv]
  · intro h a b _ hg he
    rw [he] at hg; cases hg
  · intro h a b _ hg
    simp only [pAttrStep]
    unfold attrEntry at hg
    cases ha : t.attrs.get? b.1 with
    | none => rfl
    | some at' =>
      simp only [ha] at hg
      simp only []
      cases hv : unmarshalToType at' b.2 with
      | ok v => simp only [hv] at hg; cases hg
      | err => rfl
      | panic => exact absurd hv (toType_no_panic _ _)

theorem p_rel_fold {t : Typ} (ht : TypWF t) (hn : Spec.namesOk t = true) (l : GoMap RelRaw)
    (h : Hist) (s : Soft) (inv : PInv t h s) :
    (relsOk t l = true → ∃ s', l.foldl (pRelStep t) (.ok s) = .ok s' ∧
      PInv t (h ++ l.filterMap (relEntry t)) s') ∧
    (relsOk t l = false → l.foldl (pRelStep t) (.ok s) = .err) := by
  refine fold_inv (pRelStep t) (fun _ => rfl) (PInv t) (relEntry t) (relOk t) ?_ ?_ ?_ l h s inv
  · intro h s b e inv hg he
    obtain ⟨rel, hr, hv, e1, e2⟩ := relEntry_some ht he
    obtain ⟨x1, x2, x3, x4, x5, x6⟩ := addRel_ext inv.wf ht inv.sub hr
    have hid : rel.fromName ≠ idName := by
      rw [e2]; exact (namesOk_mem hn (List.mem_append_right _ (mem_keys_of_get? hr))).1
    have hok := setOk_rel x1 hid x5 (relValue_typed rel b.2 e.2 hv)
    have := PInv.extend_set ht hn inv _ x1 (x2.trans inv.name) x3 x4 rel.fromName e.2 x6 hok
    have ee : e = (rel.fromName, e.2) := by rw [← e1.trans e2.symm]
    have hbad : (relValue rel b.2).2 = false := by
      unfold relOk at hg; rw [hr] at hg; simpa using hg
    refine ⟨_, ?_, by rw [ee]; exact this⟩
    simp only [pRelStep, hr]
    rw [show relValue rel b.2 = ((relValue rel b.2).1, (relValue rel b.2).2) from rfl, hv, hbad]
    simp only [Bool.false_eq_true, if_false]
  · intro h a b _ hg he
    unfold relOk at hg
    unfold relEntry at he
    cases hr : t.rels.get? b.1 with
    | none => rw [hr] at hg; cases hg
    | some rel =>
      rw [hr] at hg he
      have hbad : (relValue rel b.2).2 = false := by simpa using hg
      have hv : (relValue rel b.2).1 = none := by simpa using he
      simp only [pRelStep, hr]
      rw [show relValue rel b.2 = ((relValue rel b.2).1, (relValue rel b.2).2) from rfl, hv, hbad]
      simp
  · intro h a b inv hg
    unfold relOk at hg
    cases hr : t.rels.get? b.1 with
    | none => simp only [pRelStep, hr]
    | some rel =>
      rw [hr] at hg
      have hbad : (relValue rel b.2).2 = true := by simpa using hg
      simp only [pRelStep, hr]
      rw [show relValue rel b.2 = ((relValue rel b.2).1, (relValue rel b.2).2) from rfl, hbad]
      cases (relValue rel b.2).1 <;> simp

theorem partBody_spec {st : SType} (ht : TypWF st.typ) (hn : Spec.namesOk st.typ = true) (sk : ResSke) :
    ((attrsOk st.typ sk.attrs && relsOk st.typ sk.rels) = true →
      ∃ s, partBody st sk = .ok s ∧ PInv st.typ (fullHist st.typ sk) s) ∧
    ((attrsOk st.typ sk.attrs && relsOk st.typ sk.rels) = false → partBody st sk = .err) := by
  obtain ⟨a1, a2⟩ := p_attr_fold ht hn sk.attrs _ _ (PInv.init st.typ sk)
  unfold partBody
  cases hA : attrsOk st.typ sk.attrs with
  | false =>
    rw [a2 hA]
    refine ⟨fun hh => by simp at hh, fun _ => foldl_err _ (fun _ => rfl) _⟩
  | true =>
    obtain ⟨s2, e2, inv2⟩ := a1 hA
    rw [e2]
    obtain ⟨b1, b2⟩ := p_rel_fold ht hn sk.rels _ s2 inv2
    simp only [Bool.true_and]
    refine ⟨fun hR => ?_, b2⟩
    obtain ⟨s3, e3, inv3⟩ := b1 hR
    refine ⟨s3, e3, ?_⟩
    have : fullHist st.typ sk =
        [idEntry sk] ++ sk.attrs.filterMap (attrEntry st.typ) ++
          sk.rels.filterMap (relEntry st.typ) := by
      simp [fullHist]
    rw [this]; exact inv3

theorem partial_spec {σ : SSchema} (hσ : σ.WF) (sk : ResSke) :
    unmarshalPartialResource σ sk ≠ .panic ∧
    ∀ s, unmarshalPartialResource σ sk = .ok s ↔
      ∃ st, σ.getType sk.typ = some st ∧ attrsOk st.typ sk.attrs = true ∧ relsOk st.typ sk.rels = true ∧
        partBody st sk = .ok s ∧ PInv st.typ (fullHist st.typ sk) s := by
  rw [unmarshalPartialResource_eq]
  cases hg : σ.getType sk.typ with
  | none => exact ⟨by simp, fun r => by simp⟩
  | some st =>
    obtain ⟨hm, _⟩ := getType_some hg
    obtain ⟨h1, h2, h3, _⟩ := hσ.2 st hm
    simp only [if_neg h1]
    obtain ⟨b1, b2⟩ := partBody_spec h2 h3 sk
    cases hb : (attrsOk st.typ sk.attrs && relsOk st.typ sk.rels) with
    | false =>
      rw [b2 hb]
      refine ⟨by simp, fun r => ⟨fun h => (by cases h), ?_⟩⟩
      rintro ⟨st', e, hA, hR, _⟩
      cases e
      rw [hA, hR] at hb; cases hb
    | true =>
      obtain ⟨r, e, inv⟩ := b1 hb
      rw [e]
      refine ⟨by simp, fun r' => ⟨fun h => ?_, ?_⟩⟩
      · cases h
        simp only [Bool.and_eq_true] at hb
        exact ⟨st, rfl, hb.1, hb.2, e, inv⟩
      · rintro ⟨st', e', _, _, e2, _⟩
        cases e'
        rw [e] at e2; exact e2

/-- Both entry points accept exactly the payloads whose type exists and whose entries are
all accepted. -/
theorem resource_accept {σ : SSchema} (hσ : σ.WF) (sk : ResSke) :
    (∃ r, unmarshalResource σ sk = .ok r) ↔
      ∃ st, σ.getType sk.typ = some st ∧ attrsOk st.typ sk.attrs = true ∧ relsOk st.typ sk.rels = true := by
  constructor
  · rintro ⟨r, h⟩
    obtain ⟨st, e, hA, hR, _⟩ := ((resource_spec hσ sk).2 r).1 h
    exact ⟨st, e, hA, hR⟩
  · rintro ⟨st, e, hA, hR⟩
    obtain ⟨hm, _⟩ := getType_some e
    obtain ⟨_, h2, h3, h4⟩ := hσ.2 st hm
    obtain ⟨r, e1, inv⟩ := (resBody_spec h2 h3 h4 sk).1 (by rw [hA, hR]; rfl)
    exact ⟨r, ((resource_spec hσ sk).2 r).2 ⟨st, e, hA, hR, e1, inv⟩⟩

theorem partial_accept {σ : SSchema} (hσ : σ.WF) (sk : ResSke) :
    (∃ s, unmarshalPartialResource σ sk = .ok s) ↔
      ∃ st, σ.getType sk.typ = some st ∧ attrsOk st.typ sk.attrs = true ∧ relsOk st.typ sk.rels = true := by
  constructor
  · rintro ⟨r, h⟩
    obtain ⟨st, e, hA, hR, _⟩ := ((partial_spec hσ sk).2 r).1 h
    exact ⟨st, e, hA, hR⟩
  · rintro ⟨st, e, hA, hR⟩
    obtain ⟨hm, _⟩ := getType_some e
    obtain ⟨_, h2, h3, _⟩ := hσ.2 st hm
    obtain ⟨r, e1, inv⟩ := (partBody_spec h2 h3 sk).1 (by rw [hA, hR]; rfl)
    exact ⟨r, ((partial_spec hσ sk).2 r).2 ⟨st, e, hA, hR, e1, inv⟩⟩

end UnmL
end Jsonapi
