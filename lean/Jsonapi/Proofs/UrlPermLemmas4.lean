/-
PART 3: reordering the names inside a `fields[t]` value or inside the include value.
-/
import Jsonapi.Proofs.UrlPermLemmas3
namespace Jsonapi.UrlL.Perm
open Jsonapi

/-! ### `eraseDups` keeps the length exactly on duplicate-free lists -/

theorem eraseDups_length_aux : ∀ (n : Nat) (l : List GoString), l.length ≤ n →
    l.eraseDups.length ≤ l.length ∧ (l.eraseDups.length = l.length ↔ l.Nodup)
  | _, [], _ => by simp
  | 0, _ :: _, h => by simp at h
  | n + 1, a :: as, h => by
    have hlen : as.length ≤ n := by simp at h; omega
    have hF := List.length_filter_le (fun b => !b == a) as
    obtain ⟨ih₁, ih₂⟩ := eraseDups_length_aux n (as.filter (fun b => !b == a)) (by omega)
    rw [List.eraseDups_cons, List.length_cons, List.length_cons, List.nodup_cons]
    refine ⟨by omega, ?_, ?_⟩
    · intro he
      have hFl : (as.filter (fun b => !b == a)).length = as.length := by omega
      have hall := List.length_filter_eq_length_iff.1 hFl
      have hFe : as.filter (fun b => !b == a) = as := List.filter_eq_self.2 hall
      refine ⟨?_, ?_⟩
      · intro hm
        have := hall a hm
        simp at this
      · rw [hFe] at ih₂
        rw [hFe] at he
        exact ih₂.1 (by omega)
    · rintro ⟨hm, hnd⟩
      have hFe : as.filter (fun b => !b == a) = as := by
        rw [List.filter_eq_self]
        intro b hb
        have : b ≠ a := fun e => hm (e ▸ hb)
        simp [this]
      rw [hFe] at ih₂ ⊢
      rw [ih₂.2 hnd]

theorem eraseDups_length_eq_iff_nodup (l : List GoString) :
    l.eraseDups.length = l.length ↔ l.Nodup :=
  (eraseDups_length_aux l.length l (Nat.le_refl _)).2

/-! ### (a) the selection of `NewParams` -/

theorem sel_perm (typ : Typ) {l l' : List GoString} (h : l.Perm l') :
    (sel typ l).Perm (sel typ l') ∧
    (((sel typ l).eraseDups.length ≠ (sel typ l).length) ↔
      ((sel typ l').eraseDups.length ≠ (sel typ l').length)) := by
  have hp : (sel typ l).Perm (sel typ l') := List.Perm.flatMap_right _ h
  refine ⟨hp, ?_⟩
  rw [Ne, Ne, eraseDups_length_eq_iff_nodup, eraseDups_length_eq_iff_nodup, hp.nodup_iff]

/-! ### (b) the pruned includes -/

theorem prune_sort_perm (l l' : List GoString) (h : l.Perm l') :
    pruneIncludes (Typ.sortStrings l) = pruneIncludes (Typ.sortStrings l') := by
  rw [DetL.sortStrings_eq_of_perm h]


/-! ### (c) values whose parsed items are permuted -/

/-- both absent, or both present and related -/
def ORel {α : Type} (V : α → α → Prop) : Option α → Option α → Prop
  | none, none => True
  | some a, some b => V a b
  | _, _ => False

theorem ORel.refl {α : Type} {V : α → α → Prop} (hV : ∀ a, V a a) : ∀ o, ORel V o o
  | none => trivial
  | some a => hV a

theorem ORel.of_eq {α : Type} {V : α → α → Prop} (hV : ∀ a, V a a) {o o' : Option α} (h : o = o') :
    ORel V o o' := h ▸ ORel.refl hV o

theorem ORel.trans {α : Type} {V : α → α → Prop} (hV : ∀ a b c, V a b → V b c → V a c) :
    ∀ {o₁ o₂ o₃ : Option α}, ORel V o₁ o₂ → ORel V o₂ o₃ → ORel V o₁ o₃
  | none, none, none, _, _ => trivial
  | some _, some _, some _, h₁, h₂ => hV _ _ _ h₁ h₂
  | none, some _, _, h, _ | some _, none, _, h, _ => h.elim
  | none, none, some _, _, h | some _, some _, none, _, h => h.elim

theorem ORel.symm {α : Type} {V : α → α → Prop} (hV : ∀ a b, V a b → V b a) :
    ∀ {o₁ o₂ : Option α}, ORel V o₁ o₂ → ORel V o₂ o₁
  | none, none, _ => trivial
  | some _, some _, h => hV _ _ h
  | none, some _, h | some _, none, h => h.elim

theorem ORel.map {α β : Type} {V : α → α → Prop} {W : β → β → Prop} (g : α → β)
    (hg : ∀ a b, V a b → W (g a) (g b)) : ∀ {o₁ o₂ : Option α}, ORel V o₁ o₂ →
    ORel W (o₁.map g) (o₂.map g)
  | none, none, _ => trivial
  | some _, some _, h => hg _ _ h
  | none, some _, h | some _, none, h => h.elim

/-- lookups agree up to a permutation of the value -/
abbrev PermO (o o' : Option (List GoString)) : Prop := ORel List.Perm o o'

theorem PermO.refl (o : Option (List GoString)) : PermO o o := ORel.refl List.Perm.refl o

theorem PermO.trans {o₁ o₂ o₃ : Option (List GoString)} (h₁ : PermO o₁ o₂) (h₂ : PermO o₂ o₃) :
    PermO o₁ o₃ := ORel.trans (V := List.Perm) (fun _ _ _ h h' => h.trans h') h₁ h₂

theorem PermO.map_sort {o o' : Option (List GoString)} (h : PermO o o') :
    o.map Typ.sortStrings = o'.map Typ.sortStrings := by
  cases o <;> cases o'
  · rfl
  · exact h.elim
  · exact h.elim
  · exact congrArg some (DetL.sortStrings_eq_of_perm h)

/-- simple URLs equal up to the order of the maps, of the includes and of each field list -/
structure SEqP (a b : SimpleURL) : Prop where
  fragments : a.fragments = b.fragments
  filterLabel : a.filterLabel = b.filterLabel
  filter : a.filter = b.filter
  sortingRules : a.sortingRules = b.sortingRules
  incl : a.incl.Perm b.incl
  fields : ∀ t, PermO (a.fields.get? t) (b.fields.get? t)
  page : ∀ k, a.page.get? k = b.page.get? k

theorem SEq.toP {a b : SimpleURL} (h : SEq a b) : SEqP a b :=
  ⟨h.fragments, h.filterLabel, h.filter, h.sortingRules, h.incl ▸ List.Perm.refl _,
   fun t => ORel.of_eq List.Perm.refl (h.fields t), h.page⟩

theorem SEqP.refl (a : SimpleURL) : SEqP a a := (SEq.refl a).toP

theorem SEqP.trans {a b c : SimpleURL} (h₁ : SEqP a b) (h₂ : SEqP b c) : SEqP a c :=
  ⟨h₁.fragments.trans h₂.fragments, h₁.filterLabel.trans h₂.filterLabel, h₁.filter.trans h₂.filter,
   h₁.sortingRules.trans h₂.sortingRules, h₁.incl.trans h₂.incl,
   fun t => (h₁.fields t).trans (h₂.fields t), fun k => (h₁.page k).trans (h₂.page k)⟩

/-- the name has the form `fields[` + non-empty key + `]` -/
def isFieldsName (n : GoString) : Bool :=
  hasPrefix n sFieldsOpen && n.getLast? = some 93 && n.length > 8

/-- entrywise relation between two values maps: same name; for a `fields[..]` name the parsed
items of the first value are permuted, for `include` the parsed items of all values are
permuted, any other value list is unchanged -/
def E (x y : GoString × List GoString) : Prop :=
  x.1 = y.1 ∧
  (if isFieldsName x.1 then (parseCommaList (firstVal x.2)).Perm (parseCommaList (firstVal y.2))
   else if x.1 = sInclude then (x.2.flatMap parseCommaList).Perm (y.2.flatMap parseCommaList)
   else x.2 = y.2)

theorem classify_of_isFieldsName {n : GoString} (h : isFieldsName n = true) :
    classify n = .fields ((n.drop 7).dropLast) := by
  unfold isFieldsName at h
  unfold classify
  rw [if_pos h]

theorem classify_sInclude : classify sInclude = .incl := by rfl

theorem E_cases {n : GoString} {vs vs' : List GoString} (h : E (n, vs) (n, vs')) :
    (∃ k, classify n = .fields k ∧
      (parseCommaList (firstVal vs)).Perm (parseCommaList (firstVal vs'))) ∨
    (classify n = .incl ∧ (vs.flatMap parseCommaList).Perm (vs'.flatMap parseCommaList)) ∨
    vs = vs' := by
  obtain ⟨_, h⟩ := h
  simp only [] at h
  by_cases hf : isFieldsName n = true
  · rw [if_pos hf] at h
    exact Or.inl ⟨_, classify_of_isFieldsName hf, h⟩
  · rw [if_neg hf] at h
    by_cases hi : n = sInclude
    · rw [if_pos hi] at h
      exact Or.inr (Or.inl ⟨hi ▸ classify_sInclude, h⟩)
    · rw [if_neg hi] at h
      exact Or.inr (Or.inr h)

theorem stepOk_E (fd : FilterDec) {n : GoString} {vs vs' : List GoString} (h : E (n, vs) (n, vs')) :
    stepOk fd n vs = stepOk fd n vs' := by
  rcases E_cases h with ⟨k, hc, _⟩ | ⟨hc, _⟩ | he
  · simp only [stepOk, hc]
  · simp only [stepOk, hc]
  · rw [he]

theorem stepApply_E (fd : FilterDec) (b : SimpleURL) {n : GoString} {vs vs' : List GoString}
    (h : E (n, vs) (n, vs')) : SEqP (stepApply fd b n vs) (stepApply fd b n vs') := by
  rcases E_cases h with ⟨k, hc, hp⟩ | ⟨hc, hp⟩ | he
  · simp only [stepApply, fFields, fPage, fLabel, fFilter, fSort, fIncl, hc]
    refine ⟨rfl, rfl, rfl, rfl, List.Perm.refl _, ?_, fun _ => rfl⟩
    intro t
    simp only [get?_set]
    split
    · exact hp
    · exact PermO.refl _
  · simp only [stepApply, fFields, fPage, fLabel, fFilter, fSort, fIncl, hc]
    exact ⟨rfl, rfl, rfl, rfl, List.Perm.append (List.Perm.refl _) hp, fun _ => PermO.refl _,
      fun _ => rfl⟩
  · rw [he]; exact SEqP.refl _

theorem stepApply_congrP (fd : FilterDec) {a b : SimpleURL} (n : GoString) (vs : List GoString)
    (h : SEqP a b) : SEqP (stepApply fd a n vs) (stepApply fd b n vs) where
  fragments := h.fragments
  filterLabel := by simp only [stepApply, h.filterLabel]
  filter := by simp only [stepApply, h.filter]
  sortingRules := by simp only [stepApply, h.sortingRules]
  incl := by
    simp only [stepApply, fIncl]
    split
    · exact List.Perm.append h.incl (List.Perm.refl _)
    · exact h.incl
  fields := by
    intro t
    simp only [stepApply, fFields]
    split
    · simp only [get?_set]
      split
      · exact PermO.refl _
      · exact h.fields t
    · exact h.fields t
  page := fPage_get?_congr n vs h.page

theorem foldl_E (fd : FilterDec) {l l' : GoMap (List GoString)} (h : Forall2 E l l') :
    ∀ a b, SEqP a b →
      l.all (fun p => stepOk fd p.1 p.2) = l'.all (fun p => stepOk fd p.1 p.2) ∧
      SEqP (l.foldl (fun su p => stepApply fd su p.1 p.2) a)
        (l'.foldl (fun su p => stepApply fd su p.1 p.2) b) := by
  induction h with
  | nil => intro a b hab; exact ⟨rfl, hab⟩
  | @cons x y _ _ hxy _ ih =>
    intro a b hab
    obtain ⟨n, vs⟩ := x
    obtain ⟨n', vs'⟩ := y
    have hn : n = n' := hxy.1
    subst hn
    have hstep : SEqP (stepApply fd a n vs) (stepApply fd b n vs') :=
      (stepApply_congrP fd n vs hab).trans (stepApply_E fd b hxy)
    obtain ⟨ih₁, ih₂⟩ := ih _ _ hstep
    refine ⟨?_, ih₂⟩
    simp only [List.all_cons, ih₁, stepOk_E fd hxy]

theorem newSimpleURL_E (path : GoString) {values values' : GoMap (List GoString)} (fd : FilterDec)
    (h : Forall2 E values values') :
    ResRel SEqP (newSimpleURL path values fd) (newSimpleURL path values' fd) := by
  obtain ⟨h₁, h₂⟩ := foldl_E fd h (su0 path) (su0 path) (SEqP.refl _)
  rw [newSimpleURL_closed, newSimpleURL_closed, h₁]
  split
  · exact h₂
  · trivial

theorem ResRel.comp {α : Type} {Q Q' Q'' : α → α → Prop} (hc : ∀ a b c, Q a b → Q' b c → Q'' a c) :
    ∀ {r₁ r₂ r₃ : Res α}, ResRel Q r₁ r₂ → ResRel Q' r₂ r₃ → ResRel Q'' r₁ r₃ := by
  intro r₁ r₂ r₃ h₁ h₂
  cases r₁ <;> cases r₂ <;> cases r₃ <;>
    first
      | exact h₁.elim
      | exact h₂.elim
      | trivial
      | exact hc _ _ _ h₁ h₂

/-! #### NewParams -/

structure PEqP (a b : Params) : Prop where
  filterLabel : a.filterLabel = b.filterLabel
  filter : a.filter = b.filter
  sortingRules : a.sortingRules = b.sortingRules
  incl : a.incl = b.incl
  fields : ∀ t, PermO (a.fields.get? t) (b.fields.get? t)
  page : ∀ k, a.page.get? k = b.page.get? k
  fieldsNodup₁ : a.fields.keys.Nodup
  fieldsNodup₂ : b.fields.keys.Nodup
  pageNodup₁ : a.page.keys.Nodup
  pageNodup₂ : b.page.keys.Nodup

theorem paramsFrom_ok_relP (σ : Schema) (fr : List GoString) (fl : GoString) (f : Option GoString)
    (sr : List GoString) (ic : List GoString) (rt : GoString) (pg pg' : GoMap PageVal)
    (fm fm' : GoMap (List GoString))
    (hpg : ∀ k, pg.get? k = pg'.get? k) (hn : pg.keys.Nodup) (hn' : pg'.keys.Nodup)
    (hfm : ∀ t, PermO (fm.get? t) (fm'.get? t)) (hm : fm.keys.Nodup) (hm' : fm'.keys.Nodup) :
    ResRel PEqP (paramsFrom σ fr fl f sr pg ic rt (.ok fm)) (paramsFrom σ fr fl f sr pg' ic rt (.ok fm')) := by
  show PEqP _ _
  refine ⟨rfl, rfl, rfl, rfl, ?_, hpg, ?_, ?_, hn, hn'⟩
  · intro t
    show PermO ((finish σ fm).get? t) ((finish σ fm').get? t)
    rw [finish_get?, finish_get?]
    refine ORel.map _ ?_ (hfm t)
    intro a b hab
    simp only [hab.isEmpty_eq]
    split
    · exact List.Perm.refl _
    · exact hab
  · show (finish σ fm).keys.Nodup
    rw [finish_keys]; exact hm
  · show (finish σ fm').keys.Nodup
    rw [finish_keys]; exact hm'

theorem paramsFrom_incl_congr (σ : Schema) (fr : List GoString) (fl : GoString) (f : Option GoString)
    (sr : List GoString) (pg : GoMap PageVal) {ic ic' : List GoString} (h : ic.Perm ic')
    (rt : GoString) (r : Res (GoMap (List GoString))) :
    paramsFrom σ fr fl f sr pg ic rt r = paramsFrom σ fr fl f sr pg ic' rt r := by
  unfold paramsFrom
  rw [prune_sort_perm ic ic' h]

theorem fields1Of_incl_congr (σ : Schema) {ic ic' : List GoString} (h : ic.Perm ic') (rt : GoString) :
    fields1Of σ ic rt = fields1Of σ ic' rt := by
  unfold fields1Of
  rw [prune_sort_perm ic ic' h]

theorem fieldOk_perm (σ : Schema) (rt : GoString) (k : GoString) {v v' : List GoString}
    (h : v.Perm v') : fieldOk σ rt (k, v) = fieldOk σ rt (k, v') := by
  have hiff : ((sel (σ.getType k) v).eraseDups.length = (sel (σ.getType k) v).length) ↔
      ((sel (σ.getType k) v').eraseDups.length = (sel (σ.getType k) v').length) := by
    rw [eraseDups_length_eq_iff_nodup, eraseDups_length_eq_iff_nodup]
    exact (sel_perm (σ.getType k) h).1.nodup_iff
  unfold fieldOk
  simp only []
  rw [decide_eq_decide.2 hiff]

theorem all_of_get?_rel {β : Type} {V : β → β → Prop} {m₁ m₂ : GoMap β} (h₂ : m₂.keys.Nodup)
    (h : ∀ k, ORel V (m₁.get? k) (m₂.get? k)) (f : GoString × β → Bool)
    (hf : ∀ k v v', V v v' → f (k, v) = true → f (k, v') = true) :
    m₁.all f = true → m₂.all f = true := by
  rw [List.all_eq_true, List.all_eq_true]
  rintro H ⟨k, v'⟩ hm
  have hg := get?_of_mem m₂ k v' h₂ hm
  have hk := h k
  rw [hg] at hk
  cases hg₁ : m₁.get? k with
  | none => rw [hg₁] at hk; exact hk.elim
  | some v =>
    rw [hg₁] at hk
    exact hf k v v' hk (H _ (mem_of_get? m₁ k v hg₁))

theorem all_eq_of_get?_rel {m₁ m₂ : GoMap (List GoString)} (h₁ : m₁.keys.Nodup) (h₂ : m₂.keys.Nodup)
    (h : ∀ k, PermO (m₁.get? k) (m₂.get? k)) (f : GoString × List GoString → Bool)
    (hf : ∀ k v v', v.Perm v' → f (k, v) = f (k, v')) : m₁.all f = m₂.all f := by
  rw [Bool.eq_iff_iff]
  constructor
  · exact all_of_get?_rel h₂ h f (fun k v v' hv hfv => (hf k v v' hv) ▸ hfv)
  · exact all_of_get?_rel (V := List.Perm) h₁ (fun k => ORel.symm (fun _ _ => List.Perm.symm) (h k)) f
      (fun k v v' hv hfv => (hf k v' v hv.symm) ▸ hfv)

theorem foldl_fieldApply_get?_rel (σ : Schema) {flds flds' : GoMap (List GoString)}
    (m : GoMap (List GoString)) (hf : flds.keys.Nodup) (hf' : flds'.keys.Nodup)
    (h : ∀ t, PermO (flds.get? t) (flds'.get? t)) (t : GoString) :
    PermO ((flds.foldl (fieldApply σ) m).get? t) ((flds'.foldl (fieldApply σ) m).get? t) := by
  rw [get?_foldl_fieldApply σ _ _ hf, get?_foldl_fieldApply σ _ _ hf']
  have ht := h t
  cases h₁ : flds.get? t <;> cases h₂ : flds'.get? t <;> rw [h₁, h₂] at ht
  · exact PermO.refl _
  · exact ht.elim
  · exact ht.elim
  · simp only []
    split
    · exact (sel_perm _ ht).1
    · exact PermO.refl _

/-- NewParams respects `SEqP` -/
theorem newParams_congrP (σ : Schema) {su su' : SimpleURL} (rt : GoString) (h : SEqP su su')
    (hf : su.fields.keys.Nodup) (hf' : su'.fields.keys.Nodup)
    (hp : su.page.keys.Nodup) (hp' : su'.page.keys.Nodup) :
    ResRel PEqP (newParams σ su rt) (newParams σ su' rt) := by
  rw [newParams_eq, newParams_eq, ← h.fragments, ← h.filterLabel, ← h.filter, ← h.sortingRules,
    ← fields1Of_incl_congr σ h.incl, ← paramsFrom_incl_congr σ _ _ _ _ _ h.incl,
    fieldsFold_closed, fieldsFold_closed,
    ← all_eq_of_get?_rel hf hf' h.fields (fieldOk σ rt) (fun k _ _ hv => fieldOk_perm σ rt k hv)]
  split
  · apply paramsFrom_ok_relP σ _ _ _ _ _ _ _ _ _ _ h.page hp hp'
    · exact foldl_fieldApply_get?_rel σ _ hf hf' h.fields
    · exact foldl_fieldApply_nodup σ _ _ (fields1Of_nodup σ _ _)
    · exact foldl_fieldApply_nodup σ _ _ (fields1Of_nodup σ _ _)
  · trivial

/-! #### NewURL and NewURLFromRaw -/

abbrev UEqP := UEqG PEqP

theorem newURL_congrP (σ : Schema) {su su' : SimpleURL} (h : SEqP su su')
    (hf : su.fields.keys.Nodup) (hf' : su'.fields.keys.Nodup)
    (hp : su.page.keys.Nodup) (hp' : su'.page.keys.Nodup) :
    ResRel UEqP (newURL σ su) (newURL σ su') := by
  rw [newURL_eq, newURL_eq, ← h.fragments]
  exact newURLCore_congr σ _ (fun rt => newParams_congrP σ rt h hf hf' hp hp')

theorem newSimpleURL_perm_E (p : GoString) {values₁ values' values₂ : GoMap (List GoString)}
    (fd : FilterDec) (hp : values₁.Perm values') (hE : Forall2 E values' values₂)
    (hnd : values₁.keys.Nodup) :
    ResRel SEqP (newSimpleURL p values₁ fd) (newSimpleURL p values₂ fd) :=
  ResRel.comp (Q := SEq) (Q' := SEqP) (Q'' := SEqP) (fun _ _ _ h₁ h₂ => (SEq.toP h₁).trans h₂) (newSimpleURL_perm p fd hp hnd)
    (newSimpleURL_E p fd hE)

theorem newURLFrom_perm_E (σ : Schema) (p : GoString) (values₁ values' values₂ : GoMap (List GoString))
    (fd : FilterDec) (hp : values₁.Perm values') (hE : Forall2 E values' values₂)
    (hnd : values₁.keys.Nodup) :
    ResRel UEqP (newURLFrom σ (some (p, values₁, fd))) (newURLFrom σ (some (p, values₂, fd))) := by
  have hrel := newSimpleURL_perm_E p fd hp hE hnd
  have hn₁ := @newSimpleURL_nodup p values₁ fd
  have hn₂ := @newSimpleURL_nodup p values₂ fd
  unfold newURLFrom
  simp only []
  cases h₁ : newSimpleURL p values₁ fd <;> cases h₂ : newSimpleURL p values₂ fd <;>
    rw [h₁, h₂] at hrel <;>
    first
      | exact hrel.elim
      | trivial
      | skip
  exact newURL_congrP σ hrel (hn₁ h₁).1 (hn₂ h₂).1 (hn₁ h₁).2 (hn₂ h₂).2

theorem UEqP_string_eq {u₁ u₂ : URL} (h : UEqP u₁ u₂) (env : StringEnv) :
    u₁.string env = u₂.string env :=
  string_canonical u₁ u₂ env h.fragments h.isCol h.params.filterLabel h.params.filter
    h.params.sortingRules (fun t => (h.params.fields t).map_sort) h.params.fieldsNodup₁
    h.params.fieldsNodup₂ (fun _ => h.params.page) (fun _ => h.params.pageNodup₁)
    (fun _ => h.params.pageNodup₂)

/-- (c) Whether `NewURLFromRaw` succeeds depends neither on the map iteration order nor on the
order of the names inside a `fields[t]` value or inside the `include` values. -/
theorem order_value_independent_isOk (σ : Schema) (p : GoString)
    (values₁ values' values₂ : GoMap (List GoString)) (fd : FilterDec)
    (hp : values₁.Perm values') (hE : Forall2 E values' values₂) (hnd : values₁.keys.Nodup) :
    (newURLFrom σ (some (p, values₁, fd))).isOk = (newURLFrom σ (some (p, values₂, fd))).isOk :=
  (newURLFrom_perm_E σ p values₁ values' values₂ fd hp hE hnd).isOk_eq

/-- (c) ... and neither does the URL, up to the order of the maps and of each field list; in
particular `String()` is the same. -/
theorem order_value_independent (σ : Schema) (p : GoString)
    (values₁ values' values₂ : GoMap (List GoString)) (fd : FilterDec)
    (hp : values₁.Perm values') (hE : Forall2 E values' values₂) (hnd : values₁.keys.Nodup)
    (u₁ u₂ : URL)
    (h₁ : newURLFrom σ (some (p, values₁, fd)) = .ok u₁)
    (h₂ : newURLFrom σ (some (p, values₂, fd)) = .ok u₂) :
    u₁.fragments = u₂.fragments ∧ u₁.isCol = u₂.isCol ∧ u₁.resType = u₂.resType ∧
    u₁.resID = u₂.resID ∧ u₁.rel = u₂.rel ∧
    u₁.params.sortingRules = u₂.params.sortingRules ∧ u₁.params.filterLabel = u₂.params.filterLabel ∧
    u₁.params.filter = u₂.params.filter ∧ u₁.params.incl = u₂.params.incl ∧
    (∀ t, PermO (u₁.params.fields.get? t) (u₂.params.fields.get? t)) ∧
    (∀ k, u₁.params.page.get? k = u₂.params.page.get? k) ∧
    u₁.params.fields.keys.Nodup ∧ u₂.params.fields.keys.Nodup ∧
    u₁.params.page.keys.Nodup ∧ u₂.params.page.keys.Nodup ∧
    ∀ env, u₁.string env = u₂.string env := by
  have h := newURLFrom_perm_E σ p values₁ values' values₂ fd hp hE hnd
  rw [h₁, h₂] at h
  have hu : UEqP u₁ u₂ := h
  exact ⟨hu.fragments, hu.isCol, hu.resType, hu.resID, hu.rel, hu.params.sortingRules,
    hu.params.filterLabel, hu.params.filter, hu.params.incl, hu.params.fields, hu.params.page,
    hu.params.fieldsNodup₁, hu.params.fieldsNodup₂, hu.params.pageNodup₁, hu.params.pageNodup₂,
    UEqP_string_eq hu⟩

#print axioms string_canonical
#print axioms order_independent_isOk
#print axioms order_independent
#print axioms sel_perm
#print axioms prune_sort_perm
#print axioms order_value_independent_isOk
#print axioms order_value_independent

end Jsonapi.UrlL.Perm
