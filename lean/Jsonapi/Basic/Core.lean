/-
Basic vocabulary shared by the model, the specifications and the driver.
Core-only (no Mathlib): everything here is linked into the `jmodel` executable.
-/
namespace Jsonapi

/-- A Go `string` is a byte sequence. -/
abbrev GoString := List UInt8

/-- Outcome of a Go call: a value, a returned error, or a run-time panic. -/
inductive Res (α : Type) where
  | ok (a : α)
  | err
  | panic
deriving Repr, DecidableEq

namespace Res
def bind {α β} (r : Res α) (f : α → Res β) : Res β :=
  match r with
  | .ok a => f a
  | .err => .err
  | .panic => .panic
instance : Monad Res where
  pure := .ok
  bind := bind
def isPanic {α} : Res α → Bool
  | .panic => true
  | _ => false
def isOk {α} : Res α → Bool
  | .ok _ => true
  | _ => false
end Res

/-- Pointwise relation between two lists (core has no `List.Forall₂`). -/
inductive Forall2 {α β : Type} (R : α → β → Prop) : List α → List β → Prop
  | nil : Forall2 R [] []
  | cons {a b l₁ l₂} : R a b → Forall2 R l₁ l₂ → Forall2 R (a :: l₁) (b :: l₂)

/-- ASCII literal as a Go string. Only used on literals; reduces under `decide`
because we go through `String.toList` and `Char.toNat`. -/
def gs (s : String) : GoString := s.toList.map (fun c => UInt8.ofNat c.toNat)

/-- Go's `strings.HasPrefix`. -/
def hasPrefix (s p : GoString) : Bool := p.isPrefixOf s

-- Go's string `<` is lexicographic on bytes: that is `List.lt` on `UInt8`
-- (decidable through core's instance).

end Jsonapi
