/-
Wire format between the Go harness and the Lean driver: one S-expression per line.
  atom   ::= [^ ()]+          (identifiers, integers, `x<hex>` byte strings)
  list   ::= '(' sx* ')'
Only the driver uses this; nothing is proved about it (a bug here shows up as a
correspondence disagreement, never as a false theorem).
-/
import Jsonapi.Basic.Core
namespace Jsonapi

inductive Sx where
  | atom (s : String)
  | list (l : List Sx)
deriving Inhabited, Repr

namespace Sx

private def tokenize (s : String) : List String := Id.run do
  let mut out : Array String := #[]
  let mut cur : String := ""
  for c in s.toList do
    if c == '(' || c == ')' then
      if cur != "" then out := out.push cur; cur := ""
      out := out.push (String.singleton c)
    else if c == ' ' || c == '\t' || c == '\n' || c == '\r' then
      if cur != "" then out := out.push cur; cur := ""
    else cur := cur.push c
  if cur != "" then out := out.push cur
  return out.toList

/-- Parse a token list; returns the parsed items up to a closing paren and the rest. -/
private partial def parseItems : List String → List Sx → (List Sx × List String)
  | [], acc => (acc.reverse, [])
  | ")" :: rest, acc => (acc.reverse, rest)
  | "(" :: rest, acc =>
      let (items, rest') := parseItems rest []
      parseItems rest' (Sx.list items :: acc)
  | t :: rest, acc => parseItems rest (Sx.atom t :: acc)

/-- A whole line is parsed as the list of its top-level items. -/
def parseLine (s : String) : List Sx := (parseItems (tokenize s) []).1

partial def toStr : Sx → String
  | atom s => s
  | list l => "(" ++ " ".intercalate (l.map toStr) ++ ")"

private def hexVal (c : Char) : Nat :=
  if '0' ≤ c ∧ c ≤ '9' then c.toNat - '0'.toNat
  else if 'a' ≤ c ∧ c ≤ 'f' then c.toNat - 'a'.toNat + 10
  else 0

private def unhex : List Char → List UInt8
  | a :: b :: rest => UInt8.ofNat (hexVal a * 16 + hexVal b) :: unhex rest
  | _ => []

private def hexDigit (n : Nat) : Char :=
  if n < 10 then Char.ofNat ('0'.toNat + n) else Char.ofNat ('a'.toNat + n - 10)

/-- `x<hex>` atom → bytes. -/
def bytes? : Sx → Option GoString
  | atom s => match s.toList with
    | 'x' :: rest => some (unhex rest)
    | _ => none
  | _ => none

def bytes! (x : Sx) : GoString := (bytes? x).getD []

def ofBytes (b : GoString) : Sx :=
  atom (String.ofList ('x' :: b.flatMap (fun u => [hexDigit (u.toNat / 16), hexDigit (u.toNat % 16)])))

def int? : Sx → Option Int
  | atom s => s.toInt?
  | _ => none
def int! (x : Sx) : Int := (int? x).getD 0
def nat! (x : Sx) : Nat := (int! x).toNat
def ofInt (i : Int) : Sx := atom (toString i)
def ofNat (n : Nat) : Sx := atom (toString n)

def bool! : Sx → Bool
  | atom "1" => true
  | atom "true" => true
  | _ => false
def ofBool (b : Bool) : Sx := atom (if b then "1" else "0")

def items : Sx → List Sx
  | list l => l
  | _ => []

def atom! : Sx → String
  | atom s => s
  | _ => ""

def strs! (x : Sx) : List GoString := x.items.map bytes!
def ofStrs (l : List GoString) : Sx := list (l.map ofBytes)

end Sx
end Jsonapi
