-- Root of the `Jsonapi` library.
import Jsonapi.Basic.Core
import Jsonapi.Basic.Sx
import Jsonapi.Model.Schema
