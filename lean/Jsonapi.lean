-- Root of the `Jsonapi` library: everything, including all property modules.
import Jsonapi.Basic.Core
import Jsonapi.Basic.Sx
import Jsonapi.Model.Schema
import Jsonapi.Generated.Facts
import Jsonapi.Props.C09
import Jsonapi.Props.C10
import Jsonapi.Props.C11
import Jsonapi.Props.C12
import Jsonapi.Props.C14
import Jsonapi.Props.C15
import Jsonapi.Props.C16
import Jsonapi.Props.C17
import Jsonapi.Props.C19
import Jsonapi.Props.C20
