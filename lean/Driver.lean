/-
jmodel: the Lean side of the correspondence check. Reads one op per line on stdin
(`(<suite> <op> args…)`), prints `<model obs> TAB <spec obs> TAB <dom>` per line.
Core-only: imports Model, Spec and Driver glue, never a proof module.
-/
import Jsonapi.Driver.Schema
import Jsonapi.Driver.Filter
import Jsonapi.Driver.Range
import Jsonapi.Driver.Struct
import Jsonapi.Driver.Resource
import Jsonapi.Driver.Marshal
import Jsonapi.Driver.Unmarshal
import Jsonapi.Driver.Url
import Jsonapi.Driver.Alias
import Jsonapi.Driver.Codec
import Jsonapi.Driver.Request
import Jsonapi.Driver.JsonText
import Jsonapi.Driver.Misc
import Jsonapi.Driver.FilterJson
import Jsonapi.Driver.Decode
import Jsonapi.Driver.UrlRaw
open Jsonapi Jsonapi.Driver

structure DState where
  schema : Schema := Schema.empty
  res : ResState := {}
  col : SColl := default
  alias : AliasState := {}
  misc : MiscState := {}

def stepLine (st : DState) (line : String) : DState × String :=
  match Sx.parseLine line with
  | [.list (.atom "schema" :: args)] =>
    let (s', m, sp, dom) := stepSchema st.schema args
    ({ st with schema := s' }, m ++ "\t" ++ sp ++ "\t" ++ (if dom then "1" else "0"))
  | [.list (.atom "filter" :: args)] =>
    let (m, sp, dom) := stepFilter args
    (st, m ++ "\t" ++ sp ++ "\t" ++ (if dom then "1" else "0"))
  | [.list (.atom "range" :: args)] =>
    let (m, sp, dom) := stepRange args
    (st, m ++ "\t" ++ sp ++ "\t" ++ (if dom then "1" else "0"))
  | [.list (.atom "struct" :: args)] =>
    let (m, sp, dom) := stepStruct args
    (st, m ++ "\t" ++ sp ++ "\t" ++ (if dom then "1" else "0"))
  | [.list (.atom "res" :: args)] =>
    let (r', m, sp, dom) := stepRes st.res args
    ({ st with res := r' }, m ++ "\t" ++ sp ++ "\t" ++ (if dom then "1" else "0"))
  | [.list (.atom "col" :: args)] =>
    let (c', m, sp, dom) := stepCol st.col args
    ({ st with col := c' }, m ++ "\t" ++ sp ++ "\t" ++ (if dom then "1" else "0"))
  | [.list (.atom "marshal" :: .atom "doc" :: args)] =>
    let (m, sp, dom) := stepMarshalDoc args
    (st, m ++ "\t" ++ sp ++ "\t" ++ (if dom then "1" else "0"))
  | [.list (.atom "marshal" :: args)] =>
    let (m, sp, dom) := stepMarshal args
    (st, m ++ "\t" ++ sp ++ "\t" ++ (if dom then "1" else "0"))
  | [.list (.atom "unm" :: args)] =>
    let (m, sp, dom) := stepUnm args
    (st, m ++ "\t" ++ sp ++ "\t" ++ (if dom then "1" else "0"))
  | [.list (.atom "url" :: args)] =>
    let (m, sp, dom) := stepUrl args
    (st, m ++ "\t" ++ sp ++ "\t" ++ (if dom then "1" else "0"))
  | [.list (.atom "alias" :: args)] =>
    let (a', m) := stepAlias st.alias args
    ({ st with alias := a' }, m ++ "\t-\t1")
  | [.list (.atom "json" :: args)] =>
    let (m, sp, dom) := stepJson args
    (st, m ++ "\t" ++ sp ++ "\t" ++ (if dom then "1" else "0"))
  | [.list (.atom "request" :: args)] =>
    let (m, sp, dom) := stepRequest args
    (st, m ++ "\t" ++ sp ++ "\t" ++ (if dom then "1" else "0"))
  | [.list (.atom "codec" :: args)] =>
    let (m, sp, dom) := stepCodec args
    (st, m ++ "\t" ++ sp ++ "\t" ++ (if dom then "1" else "0"))
  | [.list (.atom "urlraw" :: args)] =>
    let (m, sp, dom) := stepUrlRaw args
    (st, m ++ "\t" ++ sp ++ "\t" ++ (if dom then "1" else "0"))
  | [.list (.atom "bytes2" :: args)] =>
    let (m, sp, dom) := stepBytes2 args
    (st, m ++ "\t" ++ sp ++ "\t" ++ (if dom then "1" else "0"))
  | [.list (.atom "filterjson" :: args)] =>
    let (m, sp, dom) := stepFilterJson args
    (st, m ++ "\t" ++ sp ++ "\t" ++ (if dom then "1" else "0"))
  | [.list (.atom "misc" :: args)] =>
    let (m', m) := stepMisc st.misc args
    ({ st with misc := m' }, m ++ "\t-\t1")
  | [.list (.atom "shared" :: _)] => (st, "-\t-\t1")
  | _ => (st, "bad-line\t-\t0")

partial def loop (h : IO.FS.Stream) (out : IO.FS.Stream) (st : DState) : IO Unit := do
  let line ← h.getLine
  if line.isEmpty then return ()
  let (st', o) := stepLine st line
  out.putStrLn o
  loop h out st'

def main : IO Unit := do
  let out ← IO.getStdout
  loop (← IO.getStdin) out {}
