"""Per-property configuration of bin/check: Lean theorems that must be checked,
correspondence suites (name, quick cases, thorough cases), fact obligations."""

STD_TRUST = []

PROPS = {
    "C01": {
        "spec_is_property": False,
        "theorems": ["C01_printNat", "C01_int_roundtrip", "C01_int_kinds", "C01_parse_print", "C01_value_roundtrip", "C01_sameVal_strs",
                     "C01_sameVal_of_canon_eq", "C01_sameVal_exact", "C01_sameVal_int", "C01_sameVal_time", "C01_ptr_nil_bytes",
                     "C01_nil_bytes", "C01_ResDom_def", "C01_roundtrip_selection", "C01_roundtrip", "C01_roundtrip_model", "C01_real_codecs",
                     "RtL.parseRFC3339_formatTime", "RtL.daysFromCivil_civilFromDays", "RtL.b64decode_b64enc"],
        "suites": [("marshal", 6000, 60000), ("document", 1600, 15000), ("codec", 8000, 100000)],
        "level_text": "For every well-formed schema, every type of it (soft or struct-backed) and every resource of that type (well-typed values, the type's attribute and relationship definitions), the model's MarshalResource with all fields and all relationship data selected succeeds and the model's UnmarshalResource on what encoding/json decodes from that output is accepted and gives the same type name, the same ID and, for every attribute and relationship, the same value (C01_roundtrip_model; C01_roundtrip on the specified tree; C01_roundtrip_selection for an arbitrary selection: selected fields equal, the others zero). Same value (Spec.sameVal, spelled out by C01_sameVal_*): integers exactly, strings and booleans exactly, times as the same instant, byte strings byte for byte up to nil = empty, null-ness preserved, to-one IDs equal, to-many IDs as the same multiset. The decoders between the two halves are parametric (Spec.Codecs) and instantiated by real ones (C01_real_codecs): an RFC 3339 decoder proved to invert the model's time encoder on every time with local year 0..9999, nanoseconds below a second and a whole-minute zone within a day (RtL.parseRFC3339_formatTime, via the civil-calendar inverse RtL.daysFromCivil_civilFromDays), and a base64 decoder proved to invert the model's encoder on every byte string (RtL.b64decode_b64enc); suite `codec` compares both encoders and both decoders with encoding/json's on every generated value. The integer codec is proved, not assumed: strconv-style printing followed by ParseInt/ParseUint of the kind's width is the identity on the kind's whole range, all ten kinds (C01_int_roundtrip, C01_printNat). A non-nil pointer to a nil byte slice keeps its null-ness (C01_ptr_nil_bytes; it did not before the repair recorded in known_findings.json). Unbounded: any number of fields, any values. Correspondence: every marshal case is unmarshaled again by the real code and compared field by field (one third of the cases select everything), and the unmarshaling half is compared with the model's UnmarshalResource on the real decoder's skeleton.",
        "level_note": "Trusted: Lean kernel; standard axioms; encoding/json between the two halves: Spec.skeletonOf is the skeleton it decodes from the marshaled tree, with the time and base64 decoders parametric (Spec.Codecs: decode(encode x) = x as structure fields) and instantiated by the modelled decoders Spec.parseRFC3339 / Spec.b64decode, whose laws are theorems; that time.Time.UnmarshalJSON and encoding/json's []byte decoding agree with them on what the encoders write is validated per generated value (suite codec), not proved; mirrors of MarshalResource and UnmarshalResource validated by correspondence. Domain: field names not 'id'; times inside time.Time.MarshalJSON's domain.",
        "assumptions": ["time.Time.UnmarshalJSON and []byte decoding agree with the modelled decoders on the encoders' output (validated on every generated time and byte string, suite codec)",
                        "encoding/json decodes the JSON it encoded into the library's skeleton types as Spec.skeletonOf says (validated per case: the real skeleton is what the model is run on)"],
    },
    "C02": {
        "spec_is_property": False,
        "theorems": ["C02_ResBack_def", "C02_IdentBack_def", "C02_DocDom_def", "C02_docResources_def", "C02_error_object", "C02_errors",
                     "C02_meta", "C02_roundtrip", "C02_data_kind", "C02_included", "C02_roundtrip_model", "C02_errors_model"],
        "suites": [("document", 4800, 40000), ("codec", 4000, 50000)],
        "level_text": "For every well-formed schema and every document whose resources (primary and included) are resources of schema types in C01's domain, the model's MarshalDocument succeeds and the model's UnmarshalDocument on what encoding/json decodes from its output is accepted with: null data as no data; a resource as that resource; a collection as a collection of the same length whose members are, in order, the round trips of the members; an identifier as an empty resource of that type and ID, identifiers as a collection of such (C02_data_kind) - each resource with the same type, ID and the same value for every selected attribute and every selected relationship whose data the document requests, zero elsewhere (RtL.ResBack = C01_roundtrip_selection); the included resources come back, as many as were included, as the round trips of the included list in the order it is written (by ID) (C02_included); no errors; the same top-level meta members (C02_meta). A document carrying errors comes back with the same error objects - id, code, status, title, detail, links, source, meta - in the same order, without data or included resources, whatever its data was (C02_errors, C02_error_object: the inverse of Error.MarshalJSON). Unbounded in the number and size of resources, errors and meta members. Correspondence: every generated document (all six data kinds, all collection kinds, Include histories, errors with and without data, meta, links) is marshaled, unmarshaled by the real code and compared clause by clause; both halves are compared with the model.",
        "level_note": "Trusted: Lean kernel; standard axioms; encoding/json between the two halves (Spec.docSkeletonOf; decoders parametric as in C01); mirrors of MarshalDocument/UnmarshalDocument validated by correspondence. Representation choices, stated in the theorems: identifiers come back as empty resources (the library has no other representation), to-many IDs and the included list come back sorted, an error's links map is listed in ascending key order; top-level meta is compared as decoded JSON members.",
        "assumptions": ["encoding/json decodes the JSON it encoded into the payload skeleton as Spec.docSkeletonOf says (validated per case)"],
    },
    "C03": {
        "spec_is_property": False,
        "theorems": ["C03_toplevel", "C03_toplevel_model", "C03_toplevel_model_any", "C03_resource_object",
                     "C03_include_unique_pairs", "C03_keyFaithful_of_noSpace", "C03_include_unique_gen", "C03_include_unique",
                     "C03_valid_json", "C03_valid_json_model", "C03_valid_json_resource", "C03_valid_json_resource_model",
                     "C03_render_determines_tree", "JsonL.parseJson_render"],
        "suites": [("document", 2800, 30000), ("marshal", 3200, 30000), ("jsontext", 8000, 60000)],
        "level_text": "The model's MarshalDocument returns exactly the specified document tree (C04_document), whose top level is an object with jsonapi and links.self, never both data and errors, included only alongside data (C03_toplevel, also unconditionally on the model's output: C03_toplevel_model_any); every resource object has string type and id, links.self = prefix(/)type/id, and every relationship object has self and related links and, when present, data that is null, an identifier or an array of identifiers (C03_resource_object); and for every history of Include calls - repeated resources, primary-data resources, every collection kind - no (type, ID) pair appears twice across primary data and included (C03_include_unique_pairs; the key-string form C03_include_unique needs type names without spaces). Syntactic validity is a theorem about the byte-level model of encoding/json's rendering (Model/JsonText.lean: compact output, Go's string escaping): the text rendered for the tree any successful MarshalDocument returns parses back, with a strict JSON parser, to exactly that tree (C03_valid_json_model, unconditional on the resources; hypothesis: the JSON values the caller supplies verbatim - meta, link meta, error source/meta - have well-formed number literals; JsonL.parseJson_render for every tree), and the rendering determines the tree (C03_render_determines_tree). That the model's bytes are encoding/json's bytes is checked on every generated resource, every second document and the random value trees of suite jsontext (byte-for-byte equality, and the model's parser on the real bytes); the harness's own JSON reader re-checks every structural clause on the real output.",
        "level_note": "Trusted: Lean kernel; standard axioms; mirrors of document.go / resource.go / link.go / collection.go validated by correspondence (impl tree = model tree = spec tree); encoding/json's rendering is modelled at byte level and validated per case (real bytes = model bytes); the model copies bytes that are not valid UTF-8 where Go substitutes U+FFFD (the harness feeds valid UTF-8). Domain: well-formed resources (every relationship holds a string / string list, field names unique and key = name); for the Include clause type names are JSON:API member names (no space).",
        "assumptions": ["encoding/json output is syntactically valid JSON (checked on every generated case by an independent reader)"],
    },
    "C04": {
        "spec_is_property": False,
        "theorems": ["C04_resource", "C04_attr_present_iff", "C04_attr_present_iff_keyed", "C04_attr_value", "C04_rel_present_iff",
                     "C04_rel_present_iff_keyed", "C04_data_present_iff", "C04_data_exact", "C04_document", "C04_collection",
                     "C04_no_entry", "C04_not_selected"],
        "suites": [("marshal", 6000, 60000), ("document", 2000, 20000)],
        "level_text": "For every well-formed resource, every fields list (empty, unknown names, 'id', duplicates) and every relationship-data map, the model's MarshalResource returns exactly Spec.resourceObject - attributes = the type's attributes the selection lists, relationships = the selected ones, each with data iff requested, data = the related IDs with the target type (null for an empty to-one) - and leaves the resource unchanged except for the order of to-many IDs (C04_resource); the iff clauses are corollaries on the tree; MarshalDocument/MarshalCollection return the specified tree for primary data, collection members and included resources of different types, an absent selection entry exposing nothing (C04_document, C04_no_entry). Unbounded. Correspondence: impl tree = model tree = spec tree on random types over all 28 kinds, soft and wrapped, random selections.",
        "level_note": "Trusted: Lean kernel; standard axioms; mirror of MarshalResource/MarshalCollection/MarshalDocument validated by correspondence; encoding/json's value encodings (decimal, RFC 3339, base64) are modelled (Model/Json.lean) and validated against the real ones on every case.",
        "assumptions": [],
    },
    "C05": {
        "theorems": ["C05_parse_range", "C05_toType_hasType", "C05_total", "C05_total_identifiers", "C05_accept_iff", "C05_conforms",
                     "C05_type", "C05_collection", "C05_document", "C05_identifiers",
                     "C05_request_total", "C05_request_ok", "C05_request_err"],
        "modules": ["C05", "C05R"],
        "suites": [("bytes", 3600, 40000)],
        "level_text": "The theorems quantify over EVERY skeleton encoding/json can hand to the library (and decode failure), for every well-formed schema of soft and struct-backed types: no entry point panics (C05_total: resource, partial resource, collection, document, identifier(s)), an accepted resource's type is in the schema, every attribute holds a value of exactly the declared Go type (or nil for nullable), to-one a string, to-many a string list (C05_conforms, C05_document, C05_collection, C05_identifiers); result XOR error is by the Res type. Decoding bytes into the skeleton is delegated to encoding/json: the harness runs the real entry point on the bytes (valid payloads with any member replaced by a wrong JSON kind, unknown/missing types and fields, duplicate and case-variant keys, truncated, random, deeply nested) and the model on the skeleton the real decoder produced, and compares outcome and result. NewRequest is modelled (Model/Request.lean: body read delegated, URL through NewSimpleURL/NewURL, body through UnmarshalDocument for POST and PATCH): it never panics (C05_request_total, composing C07_total and C05_total), a returned request carries the method, the parsed URL and a document exactly for POST/PATCH whose resources conform (C05_request_ok), and an unreadable body or rejected URL gives an error (C05_request_err); requests over several methods and URL shapes are compared with the model.",
        "level_note": "Trusted: Lean kernel; standard axioms; encoding/json decoding into payloadSkeleton/resourceSkeleton/relationshipSkeleton (delegated; the skeleton types are the library's own, exported under the verif tag); mirror of UnmarshalDocument/Resource/PartialResource/Collection/Identifier(s) and Attr.unmarshalToType validated by correspondence; strconv.Atoi/ParseInt/ParseUint modelled. Schema domain: SSchema.WF (C14's invariant, field names not 'id', struct-backed types declarable).",
        "assumptions": ["encoding/json decodes or rejects any byte string without panicking"],
    },
    "C06": {
        "theorems": ["C06_int", "C06_int_sound", "C06_int_signed", "C06_uint_negzero", "C06_null", "C06_string", "C06_time", "C06_bytes",
                     "C06_bool", "C06_mkVal_inj", "C06_rel_absent", "C06_rel_toOne", "C06_rel_toMany", "C06_stored",
                     "C06_remarshal_toOne", "C06_remarshal_toMany", "C06_known_toOne_empty_id", "C06_parse_facts", "C06_parse_cases"],
        "facts": ["unmarshalParse", "unmarshalToTypeCases"],
        "suites": [("literals", 6000, 80000), ("codec", 4000, 50000)],
        "level_text": "For all ten integer kinds a literal is accepted iff it is an integer literal within the kind's range (and without a minus sign for unsigned kinds), and is stored unchanged (C06_int, against an independent reading Spec.intLit of the literal; exhaustive literal windows for the 8/16-bit kinds in the thorough correspondence tier); null is accepted exactly for nullable attributes and stored as nil (C06_null); strings, times and byte strings are stored exactly as the delegated decoders decode them, byte strings only from JSON strings (C06_string/time/bytes), booleans from true/false (C06_bool); a relationship holds exactly the listed IDs, repeats kept, and every linkage identifier carries the relationship's target type (C06_rel_toOne/toMany); every field absent from the payload reads its zero value and every present one the decoded value (C06_stored); the parser called for each kind, its bit size and the narrowing conversion are read from the current source of Attr.unmarshalToType (T1 fact unmarshalParse) and are the ones the model assumes, all fourteen kinds (C06_parse_facts, C06_parse_cases); an accepted to-one identifier with a non-empty id and an accepted to-many list re-marshal as exactly the payload's identifiers (C06_remarshal_toOne/toMany). Partial: a to-one identifier whose id is empty or missing is accepted and re-marshals as null (known finding C06-toone-empty-id, pinned by TestUnmarshalPartialResource; refuted from a witness by C06_known_toOne_empty_id). The harness checks each accepted literal against an arbitrary-precision reading (math/big), RFC 3339 and base64 decoded independently, re-marshals every accepted resource and compares id, type, the payload's attributes and linkage with the payload as JSON values, and runs a quarter of the payloads through partial unmarshaling as well.",
        "level_note": "Trusted: Lean kernel; standard axioms; delegated decoders of encoding/json for string / time.Time / []byte / Identifier (the theorems hold for every result they can return; C06 says the library stores exactly that result); strconv modelled. Note: '-0' is rejected for unsigned kinds (strconv.ParseUint), consistent with 'accepted only if' (C06_uint_negzero).",
        "assumptions": [],
    },
    "C11": {
        "spec_is_property": False,
        "modules": ["C11", "C11M"],
        "theorems": ["C11_perm_maps", "C11_perm_fields", "C11_perm_fields_perm", "C11_perm_relData_perm", "C11_perm_tomany_general",
                     "C11_perm_tomany", "C11_perm_tomany_keyed", "C11_perm_included", "C11_perm_document_maps", "C11_deterministic",
                     "C11_repeat_resource", "C11_repeat_document", "C11_repeat_document_full", "C11_repeat_idem", "C11_frame",
                     "C11_frame_document", "C11_model_tree", "C11_model_perm_fields", "C11_model_perm_maps", "C11_model_perm_tomany",
                     "C11_model_frame", "C11_model_document_included"],
        "suites": [("marshal", 4800, 40000), ("document", 2400, 20000)],
        "level_text": "Go maps are association lists whose order is the iteration order the runtime picked; the output tree is proved invariant under EVERY permutation of the attribute, relationship, field-selection, relationship-data and links maps (C11_perm_maps, C11_perm_document_maps), of the names inside a selection or relationship-data list, duplicates included (C11_perm_fields), of the IDs of to-many relationships (C11_perm_tomany*), and of included resources with distinct IDs (C11_perm_included); marshaling the state a first marshal leaves behind gives the same tree (C11_repeat_*), and nothing but the order of to-many IDs and of the included list changes (C11_frame, C11_model_frame). The C11_model_* theorems carry this to the model of MarshalResource/MarshalDocument through C04. Bytes are a function of the tree (encoding/json with sorted keys, delegated). Correspondence: each case is marshaled repeatedly in one process (Go re-randomises map iteration on every range) and once per permuted variant; bytes must be identical; Get snapshots before/after.",
        "level_note": "Trusted: Lean kernel; standard axioms; encoding/json renders equal trees to equal bytes; sort.Strings / sort.Slice modelled as (stable) insertion sorts - for included resources with equal IDs of different types Go's unstable sort may differ, the included-permutation theorem requires distinct IDs as the property does.",
        "assumptions": ["encoding/json output is a function of the value tree"],
    },
    "C13": {
        "theorems": ["C13_accept_iff", "C13_reject_iff", "C13_fields", "C13_values"],
        "suites": [("bytes", 3600, 40000)],
        "level_text": "For every well-formed schema and every skeleton: partial unmarshaling accepts iff full unmarshaling accepts (C13_accept_iff, also for the error outcome); the partial resource has the schema type's name, the payload's ID, exactly the attributes that are members of the payload's attributes object and the relationships whose object carries a data member, each with the schema's definition, and reads for each the value full unmarshaling gives it (C13_fields, C13_values). Correspondence runs every generated payload through both real entry points and both models; the Go side checks the field sets and values against the decoded skeleton.",
        "level_note": "Trusted: as C05 (delegated encoding/json decoding into the skeleton; mirrors validated by correspondence). Domain: skeleton maps have unique keys (they are Go maps).",
        "assumptions": [],
    },
    "C18": {
        "theorems": ["C18_facts", "C18_copy_same", "C18_contents_no_dangling", "C18_sep", "C18_independent", "C18_copy_independent",
                     "C18_copy_independent_interleaved", "C18_new", "C18_new_independent", "C18_shared_is_detected"],
        "facts": ["Facts.copyStores / Facts.copyValReturns / Facts.wrapperCopySets: what copyData, copyVal and Wrapper.Copy store for []byte, []string, *[]byte (regenerated; C18_facts is `decide` over them)"],
        "suites": [("alias", 4000, 40000)],
        "level_text": "Heap model: backing arrays of []byte/[]string values and the *Type of a resource are heap cells, values hold addresses. Whether a copy stores a fresh slice or the source's own is read from the regenerated facts (C18_facts). Proved, unbounded: a copy reads like its source (ID, type, keys, contents) and leaves the source unchanged (C18_copy_same); the copy reaches no cell of the source (C18_sep); separation and validity are invariant under every history of operations on one side - Set, in-place writes through slices obtained by Get (also through *[]byte), in-place sorting by marshaling/filtering, AddAttr/RemoveField on its type - so nothing read from the other side changes, in both directions and interleaved (C18_independent, C18_copy_independent*); New returns a zero-valued resource with its own type cell sharing nothing (C18_new*); and with a shared store mode the violation is exhibited (C18_shared_is_detected). Correspondence performs the same copy-then-mutate histories on real SoftResources and wrapped structs and on the heap model, reading every resource after every step.",
        "level_note": "Trusted: Lean kernel; standard axioms; the extractor's reading of copyData/copyVal/Wrapper.Copy; mirror validated by correspondence. Pointers to scalars (*string, *int, ...) are shared by copies in the Go code and are values in the model: the property speaks of slices. Storing in one resource a slice obtained from the other is aliasing introduced by the caller and is outside the operations of HOp.",
        "assumptions": ["Go slices alias exactly when they share a backing array (cell)"],
    },
    "C07": {
        "theorems": ["C07_total", "C07_restype", "C07_fields", "C07_fields_default", "C07_include_valid", "C07_include_kept",
                     "C07_sort", "C07_sort_names", "C07_isCol_agree", "C07_order_independent_isOk", "C07_order_independent"],
        "suites": [("url", 16000, 150000)],
        "level_text": "url.Parse and Query() are delegated: the theorems are over EVERY decoded path and EVERY values map, and every schema satisfying C14's invariant (relationships may point to missing types). Proved, unbounded: parsing never panics (C07_total); a returned URL's resource type is in the schema (C07_restype); every field-selection entry names a schema type, lists only its fields or id, without duplicates, keys unique, and defaults to all fields when nothing valid was requested (C07_fields, C07_fields_default); every inclusion path is a non-empty chain of schema relationships from the resource type (C07_include_valid) and a valid requested path is kept unless a longer requested path extends it (C07_include_kept); for collection URLs the rules start with the caller's valid rules in order, mention only id/attributes and contain id (C07_sort, C07_sort_names for names not starting with '-'); outcome class, URL content and String() do not depend on the iteration order of the values map (C07_order_independent). Correspondence: raw URLs from a grammar (all path shapes, all parameter families, empty values, repeats, unknown names, prefix-related relationship names, nested includes, malformed escapes) against random schemas with dangling relationships; real url.Parse/Query results are handed to the model; full URL dump and String() compared.",
        "level_note": "Trusted: Lean kernel; standard axioms; net/url.Parse and Query on arbitrary input (delegated); json decoding of the filter parameter (delegated; the filter tree is opaque to the library); mirror of NewSimpleURL/NewParams/NewURL validated by correspondence; strconv.Atoi modelled. Known oddity kept by the pinned tests and outside the property text: after an invalid include is dropped, the next include's types get no field-selection entry.",
        "assumptions": ["net/url.Parse/Query return some path and values map or an error, without panicking"],
    },
    "C08": {
        "theorems": ["C08_unescape_escape", "C08_parse_string", "C08_reparse", "C08_statement_false", "C08_known_nofields_string",
                     "C08_known_nofields_counterexample", "C08_known_nofields_not_fixpoint", "C08_canonical", "C08_empty_items",
                     "C08_fields_perm", "C08_include_perm", "C08_order_value_independent"],
        "suites": [("url", 16000, 150000)],
        "level_text": "PARTIAL (known finding C08-type-without-fields): for a type without any field String() writes fields%5B<t>% which does not parse back; the exclusion is the explicit hypothesis NoEmptySelection, the full statement is C08_statement, refuted by C08_statement_false, and the harness replays the witness. Proved, unbounded, on a modelled net/url for the grammar String() emits (validated against the real url.Parse on every String() output): unescape(escape s) = s for query and path escaping and the escaped text contains no structural byte (C08_unescape_escape); parsing String() gives exactly the emitted path and parameters (C08_parse_string); re-parsing recovers fragments, resource type and ID, relationship, field selection (as sets), sorting rules, page parameters of collection URLs, filter label / filter tree, and String() of the result is the same text (C08_reparse, under codec laws for the delegated JSON label/filter coding and schema names that are member names: no comma, no leading '-'); String() depends on the field and page maps only through lookups and sorted lists (C08_canonical), empty list items vanish (C08_empty_items), permuting items of fields/include values or differently named parameters does not change String() (C08_fields_perm, C08_include_perm, C08_order_value_independent).",
        "level_note": "Trusted: Lean kernel; standard axioms; the modelled net/url parser on String()'s grammar (Spec.parseRaw; validated per case against url.Parse/Query); JSON coding of the filter label and filter tree (parametric CodecLaws: decode(encode x) = x, canonical filter text starts with '{'); mirror of URL.String validated by correspondence.",
        "assumptions": ["json.Marshal/Unmarshal of a Filter and of a string are inverse on canonical texts (CodecLaws)"],
    },
    "C09": {
        "theorems": ["C09_mergeSorter_local", "C09_less_spec", "C09_less_no_panic", "C09_less_strict_weak", "C09_range",
                     "C09_range_filtered", "C09_unique_with_id", "C09_unique_with_id_range", "C09_range_eq_spec",
                     "C09_partition", "C09_partition_all", "C09_known_uint64_counterexample", "C09_statement_false"],
        "facts": ["Facts.lessCases: the case list of sortedResources.Less's type switch, regenerated; RulesHaveCases is stated against it"],
        "suites": [("range", 8000, 60000)],
        "level_text": "PARTIAL (known finding C09-sort-uint64-family): the theorems hold for every sorting rule whose attribute has a case in Less's type switch; uint64, *uint64 and *[]byte have none on this tree, the exclusion is the explicit hypothesis RulesHaveCases, the full statement is kept as C09_statement and refuted by C09_statement_false from a concrete witness that the harness replays. Proved, unbounded: Less = the lexicographic rule order of the specification (C09_less_spec), it is a strict weak order on the collection (C09_less_strict_weak), and for every sorting function meeting sort.Sort's contract (structure Sorter + locality) Range returns exactly the page [number*size,(number+1)*size) of one sorted permutation of the matching resources, the same for every page geometry (C09_range, with the filter clause discharged by C10_eval in C09_range_filtered); with id among the rules that permutation is unique, hence independent of the initial order and of the sorting algorithm (C09_unique_with_id_range); consecutive pages partition it (C09_partition). Page arithmetic is modelled on 64-bit machine integers (wrap-around of uint multiplication, int conversion).",
        "level_note": "Trusted: Lean kernel; standard axioms; mirror of range.go (Range, Less) validated by correspondence on all three collection implementations, soft and wrapped resources, every kind; sort.Sort is parametric (any Sorter that returns a permutation, sorted when the comparator is a strict weak order on the elements, and only consults Less on distinct elements). 'Input collection unchanged' and 'non-nil result' are checked on the real code by the harness (the model is functional).",
        "assumptions": ["sort.Sort meets the Sorter contract (permutation; sorted under a strict weak order; only compares distinct elements)",
                        "IDs in the collection are unique, ids has no repeats, number*size < 2^63 (the property's domain)"],
    },
    "C10": {
        "theorems": ["C10_eval", "C10_evalAll", "C10_evalAny", "C10_complement", "C10_trichotomy", "C10_le_ge", "C10_nil",
                     "C10_nil_right", "C10_unordered_bool", "C10_unordered_ids", "C10_unknown_op", "C10_impl_independent"],
        "facts": ["every Go type name of a well-typed value is a case of checkVal's type switch (Facts.checkValCases, regenerated)"],
        "suites": [("filter", 10000, 120000)],
        "level_text": "C10_eval: for every well-formed resource view and every well-typed filter tree of any depth, the model of IsAllowed returns exactly the tree read as logic (Spec.eval) - by mutual structural recursion, unbounded. The logical laws of the property (complement, trichotomy on every ordered kind, <=/>= decomposition, nil equals only nil and is never ordered, booleans and to-many sets never ordered, unknown operator allows nothing, independence of the resource implementation) are separate theorems about the specification. checkVal's type switch is read from the source on every run (Facts.checkValCases) and its completeness is a decide-checked obligation. Correspondence: every generated (resource, filter) pair is evaluated by the real IsAllowed on a SoftResource and on a reflect.StructOf-wrapped struct, by the Lean model and by the Lean specification; all three must agree.",
        "level_note": "Trusted: Lean kernel; standard axioms; mirror of filter.go (IsAllowed, getAttrVal, checkVal, check*), validated by correspondence; bytes.Compare and Go string comparison are modelled as lexicographic order on byte lists; time.Time Equal/Before/After as comparison of (unix seconds, nanoseconds). Ill-typed filters (failed type assertions) are outside the property's domain and are modelled as panics.",
        "assumptions": ["sort.Strings inside checkSlice sorts (modelled by insertion sort; only the sorted result is used)",
                        "fmt %T names of the 30 value types are as tabulated in Kind.goName"],
    },
    "C12": {
        "theorems": ["C12_readonly", "C12_no_write_access", "C12_race_free", "C12_queries_pure", "C12_write_races"],
        "facts": ["Facts.writesThrough: for every function/method with a *Schema or *Type receiver or parameter, does it assign through it (directly, via delete, via a Type value obtained from the schema, or via a call to a function that does); regenerated on every run; C12_readonly is `decide` over it"],
        "suites": [("shared", 3000, 40000)],
        "racer": (8, 2500, 60000),
        "level_text": "PARTIAL by nature (DESIGN.md §6 C12): in the effect model every operation of the property performs only read accesses to the shared schema, because none of the Go functions it runs assigns through the schema - a regenerated syntactic fact checked by `decide` (C12_readonly); hence no interleaving of any number of threads of any length contains a race (C12_race_free), and a write would race (C12_write_races). The Go memory model is abstracted to read/write accesses of the shared schema and the write facts are syntactic (go/ast, intra-procedural taint through GetType results). Dynamic side: every operation is run on a shared schema with a deep snapshot (content and identity of the Types slice and of every Attrs/Rels map) before and after; and a -race build runs 2..16 goroutines with random mixes of the operations (schedule exploration: validation and replay, not the proof).",
        "level_note": "Trusted: Lean kernel; the fact extractor's write analysis (harness/cmd/extract); the Go race detector for the dynamic runs. Not modelled: the Go memory model beyond read/write conflicts; user-supplied NewFunc closures; Type.NewFunc being set concurrently (documented as unsafe by the library).",
        "assumptions": ["reads of Go maps and slices by several goroutines without a writer are race-free (Go memory model)"],
    },
    "C14": {
        "theorems": ["C14_inv", "C14_lookup", "C14_atomic", "C14_remove_absent", "C14_twoway"],
        "suites": [("schema14", 6000, 60000)],
        "level_text": "Invariant by induction over every finite history of the seven editing calls (C14_inv: well-formedness and no panic), atomicity of failing edits on every reachable state (C14_atomic), removal of something absent (C14_remove_absent), agreement of the lookups with the list (C14_lookup) and success + both sides of AddTwoWayRel in either direction and within one type (C14_twoway) are Lean theorems, unbounded. The real Schema/Type methods are tied to the model by replaying the same random histories (collision-heavy name alphabet) on both and comparing the result class and the full schema dump after every call; the Go side also evaluates the invariant, atomicity and the two-way clause directly on the real schema.",
        "level_note": "Trusted: Lean kernel; propext/Classical.choice/Quot.sound; hand-written mirror of schema.go editing methods and type.go AddAttr/AddRel/RemoveAttr/RemoveRel (validated by correspondence). Domain as in DESIGN.md §6 C14: Type values handed to AddType are well-formed; attribute and relationship names share one namespace. AddTwoWayRel's index-based update is modelled name-based, which coincides on every schema with unique type names (i.e. every reachable one, by C14_inv).",
        "assumptions": ["Go maps behave as finite maps (association list with unique keys)",
                        "append(s[:i], s[i+1:]...) removes element i (aliasing of the old backing array by copies of the slice header is not modelled)"],
    },
    "C15": {
        "theorems": ["C15_sound_complete", "C15_each", "C15_pure_fact", "C15_total", "C15_order_independent"],
        "facts": ["writesThrough(Schema.Check)=false", "writesThrough(Schema.GetType)=false"],
        "suites": [("schema15", 12000, 100000)],
        "level_text": "Check's verdict is characterised by a Lean theorem for every schema with non-empty type names: no error iff no relationship is offending (dangling target, or inverse named but declared from another type / not reciprocated by a relationship of the target type that names it back and points back), and each offending relationship contributes at least one error. The errors reported (as a multiset of (type, relationship, count)), their total number and whether there are any do not depend on the iteration order of the attribute and relationship maps (C15_order_independent). Purity: the model of Check returns no schema, and the regenerated fact that Schema.Check and Schema.GetType do not assign through their receiver is a decide-checked obligation. Correspondence compares the number of errors on schemas with planted faults of every kind; the Go side evaluates the iff and the lower bound with an independent reading of 'offending' and checks the schema dump is unchanged.",
        "level_note": "Trusted: Lean kernel; the three standard axioms; mirror of schema.go Check/GetType (validated by correspondence); the go/ast extractor for the write facts. Error texts are not modelled, only their number per relationship.",
        "assumptions": ["type names in the schema are non-empty (C14's invariant), so 'the zero Type was returned' means 'no such type'"],
    },
    "C16": {
        "theorems": ["C16_invert_invert", "C16_normalize_mem", "C16_normalize_oneway", "C16_normalize_idem",
                     "C16_normalize_invert", "C16_string_invert", "C16_rels", "C16_rels_pair_once",
                     "C16_complete_fields", "C16_rels_oneway_once", "C16_rels_order", "C16_rels_perm", "C16_rels_types_perm",
                     "C16_rels_types_perm_needs_distinct_names", "C16_rels_coherent", "C16_unrepaired_counterexample"],
        "suites": [("schema16", 16000, 150000)],
        "level_text": "All statements are Lean theorems over every relationship value (arbitrary byte-string names) and every schema value; no bound. REPAIRED DEFECT (found by stating the last clause of the property in full): Schema.Check never compares the cardinality flags of the two sides of a two-way pair and BuildType always leaves FromOne false, so for an ordinary struct-built pair (users.posts []string / posts.author string) the two sides normalised to two different values and Rels() listed the pair twice although Check reported nothing (C16_unrepaired_counterexample). buildRels now completes each two-way relationship before normalising it - FromOne becomes the conjunction of ToOne over the relationships of the target type that point back (Check's matching criterion), when one exists - and the model's relSet/relsSorted mirror that (Schema.complete). C16_rels_coherent then proves the clause at full strength for every coherent schema (C14's invariant Inv, Check reports nothing, every FromType is the owning type): each one-way relationship is listed exactly once as itself; for each two-way relationship Check's reciprocal exists, the two sides are completed with each other's ToOne to a relationship and its inverse, which normalise to one value listed exactly once (a self-inverse relationship is its own reciprocal and its own pair); every entry is one of those; and the listing is a permutation of the duplicate-free list of the completed ends that Normalize keeps, so its length is the number of one-way relationships plus the number of two-way pairs (each pair has exactly one end Normalize keeps). Order independence is restated for the completed set (C16_rels_order, C16_rels_perm: same type names, maps in any order; C16_rels_types_perm: types in any order, given distinct type names - needed, C16_rels_types_perm_needs_distinct_names, because the completion looks the target type up by name). The Go functions Invert/Normalize/String/Rels are tied to the model by running both on the same generated relationships and schemas (adversarial name pools) and by the Go-side evaluation of the laws on the real code; suite schema16 builds every schema a fourth time as struct-built types declare it (both halves of every pair with FromOne false) and requires one entry per one-way relationship and per pair, carrying the ToOne of both sides (verdict FAIL:struct-like schema on the unrepaired code).",
        "level_note": "Trusted: Lean kernel; propext/Classical.choice/Quot.sound; the hand-written mirror of type.go Rel.* and schema.go Rels/buildRels (validated by correspondence on every run, and proved equal to the translated source: GenC15b); sort.Slice modelled as any sorting function (result unique under the total order relLess); Go map[Rel]struct{} modelled as a duplicate-free list.",
        "assumptions": ["sort.Slice returns a sorted permutation of its input (modelled by List.mergeSort; the result is unique because relLess is a total order)",
                        "Go map with Rel keys is a set of Rel values (modelled by a duplicate-free list)"],
    },
    "C17": {
        "theorems": ["C17_soft_refines", "C17_wrapped_refines", "C17_indistinguishable", "C17_fresh", "C17_equal_refl",
                     "C17_equal_symm", "C17_equal_sound", "C17_equal_names_counterexample", "C17_equalStrict_id"],
        "suites": [("resource", 4800, 40000)],
        "level_text": "Refinement by induction over every history of well-typed Set calls: a SoftResource (through check()'s materialisation and pruning) and a wrapped struct (through the struct-field model, for the struct a user declares for the type) both read back, up to the canonical reading (typed/untyped nil, nil/empty byte string), the abstract map 'last value set, else the kind's zero' (C17_soft_refines, C17_wrapped_refines), hence are indistinguishable (C17_indistinguishable); fresh resources have the type's name, fields and zeros (C17_fresh). Equal is reflexive and symmetric, EqualStrict adds the ID, and Equal is sound for type name, relationship names and all values. PARTIAL (known finding C17-equal-attr-names): Equal never compares attribute names - kept as C17_equal_statement, refuted by C17_equal_names_counterexample, and the harness replays the witness. Correspondence drives both implementations side by side with the same histories and compares full views after every call; the Go side checks read-back against its own abstract map.",
        "level_note": "Trusted: Lean kernel; standard axioms; mirrors of soft_resource.go (check/Get/Set), wrapper.go (getField/setField/Get/Set), resource.go Equal/EqualStrict validated by correspondence; fmt %T type names tabulated; reflect.DeepEqual modelled as structural equality of the value model (identity of *time.Location is not modelled: equality cases use UTC times). Domain: field names are not 'id' (Get('id') is the resource ID) and, for wrapped structs, the type is declarable as a struct (Spec.structable).",
        "assumptions": ["reflect.DeepEqual on the 30 value types = structural equality of GoVal", "fmt %T names as tabulated"],
    },
    "C19": {
        "theorems": ["C19_step", "C19_refines_from", "C19_init", "C19_refines", "C19_only_add_panics", "C19_len", "C19_at",
                     "C19_resource", "C19_fields", "C19_remove_first", "C19_zero_for_later_attr", "C19_zero_for_later_rel",
                     "C19_zero_for_later_fields", "C19_snapshot", "C19_rows_stable"],
        "suites": [("collection", 4800, 40000)],
        "level_text": "Simulation by induction over every history of Add, Remove, AddAttr, AddRel and SetType (C19_refines): the SoftCollection model (shared type pointer, lazy check() with materialised zeros and pruning) refines a plain ordered list of rows (id + snapshot of accepted values) read through the current type; Len, At (nil out of range), Resource, 'exactly the current fields', 'zero for fields added later', 'Remove deletes the first match only' and 'Add depends only on what is read from its argument' are corollaries, unbounded. Correspondence replays random histories (resources of the collection's type, narrower, wider, conflicting, soft and wrapped, duplicate IDs) on the real SoftCollection and on the model and compares the full dump after every call; the Go side keeps its own ordered list as oracle and also mutates the added resource afterwards to check the snapshot.",
        "level_note": "Trusted: Lean kernel; standard axioms; mirror of soft_collection.go and soft_resource.go (check, AddAttr, AddRel, Set) validated by correspondence. Domain decisions (DESIGN.md): no field of an added resource is called 'id'; SetType's new type keeps the definition of every field name it shares with the current type (redefining the kind of a stored field is outside the domain).",
        "assumptions": ["all stored resources share the collection's *Type (modelled by keeping the type in the collection)"],
    },
    "C20": {
        "theorems": ["C20_reject", "C20_accept_build", "C20_type_exact", "C20_accept_safe", "C20_zero_WT", "C20_fields_not_ID"],
        "facts": ["Facts.checkAttrTypes: the attribute type names accepted by Check, regenerated (checkAttrTypes_iff is a decide-checked obligation)"],
        "suites": [("structs", 10000, 80000)],
        "level_text": "Over an explicit model of a Go struct declaration with tags (field name, Go type among the 28 attribute types / []string / unsupported, json tag, api tag) the theorems cover every declaration, unbounded: if Check rejects, BuildType errs and Wrap panics (C20_reject); if it accepts, BuildType and Wrap succeed and agree on name, attributes and relationships (C20_accept_build); the built type has exactly the tagged attributes and relationships with the kinds, nullability, cardinality, target and inverse the tags and Go types declare (C20_type_exact); and on an accepted struct every Get (with the type assertions marshaling makes), every well-typed Set with read-back and frame, Set/Get of the ID, New and Copy succeed without panic and keep the wrapper well-typed (C20_accept_safe). Correspondence runs Check/BuildType/Wrap and a use-script (Get/Set every declared field, id, Copy, New) on reflect.StructOf shapes from a tag/type grammar, by value and by pointer, against the model; the Go side also runs MarshalResource under recover.",
        "level_note": "Trusted: Lean kernel; standard axioms; mirror of helpers.go Check/BuildType/IDAndType and wrapper.go Wrap/Get/Set/getField/setField/Copy/New (reflect's reading of struct types is abstracted into StructDecl; validated by correspondence on ~25k generated shapes per quick run); hypothesis SingleID (Go forbids two fields named ID). Embedded structs: reflect's FieldByName(ID) follows embedding while every loop of the library ranges over the struct's own fields, so a struct whose ID is promoted from an embedded struct is, in StructDecl terms, an untagged field of another type plus an ID field without json tag (an ID's json tag is only read by those loops); such shapes are generated and compared (suite structs, 1/6 of the shapes). Tagged fields inside an embedded struct are invisible to the library and to the model alike; unexported fields are outside the model.",
        "assumptions": ["reflect reports field order, names, types and tags as declared", "at most one field is named ID (Go language rule)"],
    },
}

# Properties not (yet) claimed. Each entry: reason. Kept current by hand; a property
# moves out of here when its check is registered above.
NOT_APPLICABLE = {
}
for _i in range(1, 21):
    _k = "C%02d" % _i
    if _k not in PROPS:
        NOT_APPLICABLE[_k] = "not claimed yet: the Lean model and correspondence suite for this property are still being built (technique applies; see DESIGN.md §6)"

# T1b: pure helper functions translated from /repo's source on every run
# (harness/cmd/translate -> Jsonapi/Generated/Funcs.lean) and the theorems, one module per
# group, stating that the translated definition IS the hand-written model's (or, for
# deduceRoute, theorems about the translated definition itself). A property lists the groups
# its model depends on; a change of one of these functions that alters its meaning breaks the
# equality for every input at once, not only on the sampled ones.
GEN = {
    "GenC16": ["Gen_Rel_Invert_eq", "Gen_Rel_Normalize_eq", "Gen_Rel_String_eq", "Gen_relLess_eq"],
    "GenC10": ["Gen_checkStr_eq", "Gen_checkInt_eq", "Gen_checkUint_eq", "Gen_checkBool_eq", "Gen_checkTime_eq", "Gen_checkIn_eq"],
    "GenC14": ["Gen_GetAttrType_eq", "Gen_GetAttrType_names", "Gen_GetAttrTypeString_kind", "Gen_GetAttrTypeString_nonEmpty",
               "Gen_GetAttrType_String"],
    "GenC03": ["Gen_buildSelfLink_eq", "Gen_buildRelationshipLinks_eq"],
    "GenC08": ["Gen_parseCommaList_eq", "Gen_parseFragments_eq"],
    "GenC15": ["Gen_Schema_HasType_eq", "Gen_Schema_GetType_eq"],
    "GenC14b": ["Gen_Type_AddAttr_eq", "Gen_Type_RemoveAttr_eq", "Gen_Type_AddRel_eq", "Gen_Type_RemoveRel_eq",
                "Gen_Schema_AddType_eq", "Gen_Schema_RemoveType_eq", "Gen_Schema_AddAttr_eq", "Gen_Schema_RemoveAttr_eq",
                "Gen_Schema_AddRel_eq", "Gen_Schema_RemoveRel_eq", "Gen_Schema_AddTwoWayRel_eq",
                "Gen_Schema_AddTwoWayRel_differs_without_unique_names"],
    "GenC07": ["Gen_deduceRoute_nil", "Gen_deduceRoute_take5", "Gen_deduceRoute_col", "Gen_deduceRoute_res",
               "Gen_deduceRoute_related", "Gen_deduceRoute_self"],
    "GenC07b": ["Gen_Type_Fields_eq", "Gen_NewParams_eq", "Gen_NewParams_differs_on_empty_rule", "Gen_NewURL_eq",
                "Gen_NewSimpleURL_eq", "Gen_NewSimpleURL_nil", "Gen_NewSimpleURL_rules_nonempty"],
    "GenC10b": ["Gen_checkBytes_eq", "Gen_checkSlice_eq", "Gen_checkVal_eq", "Gen_checkVal_differs_nil_ptr_other_type",
                "Gen_checkVal_eq_same_type"],
    "GenC09": ["Gen_sortedResources_Less_eq", "Gen_sortedResources_Less_no_rules", "Gen_sortedResources_Less_uint64_tie"],
    "GenC03b": ["Gen_Document_Include_eq", "Gen_Document_Include_fun", "Gen_Document_Include_data",
                "Gen_Document_Include_step_pairs", "Gen_Document_Include_step_keys", "Gen_Document_Include_unique_pairs",
                "Gen_Document_Include_unique_gen", "Gen_Document_Include_unique",
                "Gen_Resources_GetType_eq", "Gen_Resources_Len_eq", "Gen_Resources_At_eq", "Gen_Resources_Add_eq",
                "Gen_Resources_Len_Add", "Gen_Resources_At_Add_last", "Gen_Resources_At_Add_old",
                "Gen_WrapperCollection_GetType_eq", "Gen_WrapperCollection_Len_eq", "Gen_WrapperCollection_At_eq",
                "Gen_WrapperCollection_At_negative", "Gen_WrapperCollection_Add_eq", "Gen_WrapperCollection_Len_Add",
                "Gen_WrapperCollection_At_Add_last",
                "Gen_NewIdentifiers_map", "Gen_NewIdentifiers_eq", "Gen_Identifiers_IDs_map", "Gen_Identifiers_IDs_eq",
                "Gen_NewIdentifiers_IDs",
                "Gen_Meta_Has_eq", "Gen_Meta_GetInt_eq"],
    "GenC15b": ["Gen_Schema_Check_eq", "Gen_Schema_Check_all_err", "Gen_Schema_Check_length", "Gen_Schema_Check_nil_iff",
                "Gen_Schema_buildRels_mem", "Gen_Schema_buildRels_nodup", "Gen_Schema_buildRels_perm", "Gen_Schema_Rels_order",
                "Gen_Schema_Rels_eq", "Gen_Schema_Rels_any_order", "Gen_Type_Copy_eq", "Gen_Type_Copy_TypeV",
                "Gen_Type_Copy_needs_unique_keys"],
}
GEN_WHAT = {
    "GenC16": "Rel.Invert, Rel.Normalize, Rel.String and relLess",
    "GenC10": "checkStr, checkInt, checkUint, checkBool, checkTime and checkIn",
    "GenC08": "parseCommaList and parseFragments",
    "GenC15": "Schema.HasType and Schema.GetType",
    "GenC14b": "the receiver-mutating methods of the schema editing API (Type.AddAttr/RemoveAttr/AddRel/RemoveRel, Schema.AddType/RemoveType/AddAttr/RemoveAttr/AddRel/RemoveRel/AddTwoWayRel; the receiver is threaded through as a value; AddTwoWayRel under the hypothesis that type names are unique, with a checked counterexample without it)",
    "GenC14": "GetAttrType and GetAttrTypeString",
    "GenC03": "buildSelfLink and buildRelationshipLinks",
    "GenC07": "deduceRoute",
    "GenC07b": "Type.Fields, NewParams (params.go), NewURL (url.go) and NewSimpleURL (simple_url.go; (*url.URL).Query and the two json.Unmarshal calls of the filter parameter are parameters, the keys of the values map are distinct), over structures generated from the Go struct declarations; NewParams and NewURL under the hypothesis that no sorting rule is the empty string - the code reads urule[0] and panics there, the model does not: a checked counterexample - which NewSimpleURL's results satisfy",
    "GenC10b": "the type switch of checkVal (29 cases over the Go types of attribute values and their pointer forms, the nil handling, the type assertions on the filter's value as panics), checkBytes and checkSlice - an `any` holding an attribute value is the model's GoVal, pointers are Options, the outcome of comparing two non-nil pointers is a universally quantified parameter; for values that are images of Go values, and checkVal under the hypothesis that a nil pointer attribute is compared with a value of its own type or for (in)equality: the code returns false without asserting the filter value's type there, the model panics - a checked counterexample, on ill-typed filters only -",
    "GenC09": "sortedResources.Less (range.go: the rule loop with its `-` prefixes, the id rule, the 25-case type switch with the assertions on the second value, the nil ordering of pointers, the byte loop, continue on ties; getAttrVal is a parameter instantiated with the model's, s.col[i] is the list read; the types without a case - uint64, *uint64, *[]byte - compare as ties in the translation as in the model: Gen_sortedResources_Less_uint64_tie)",
    "GenC03b": "Document.Include (document.go: the receiver *Document is the model's Document threaded as a value, d.Data.(Resource) / d.Data.(Collection) are the constructors of the primary-data sum, a collection is read by GetType().Name, Len() and At(i) below Len(); the Include theorems of C03 - no (type, id) pair twice across primary data and included, step and history - are restated about the translated method), (*Resources).GetType/Len/At/Add and (*WrapperCollection).GetType/Len/At/Add (the index read of At is checked in the translation: Resources.At never panics, WrapperCollection.At panics below zero as the model says; r.(*Wrapper) is a parameter), NewIdentifiers, Identifiers.IDs (the stores ids[n] = … into a slice made by make([]string, len(i)) are List.set under the loop's own bound), Meta.Has and Meta.GetInt (on int and string values)",
    "GenC15b": "Schema.Check ([]error as a list with one Res.err per appended error: the result is, relationship by relationship in iteration order, checkRel errors, and its length is checkCount), Schema.buildRels (map[Rel]struct{} as a list of entries with distinct keys; the range variable whose field FromOne the body stores into is read as a local copy of the element, the found/one loop is the model's Schema.complete: the same set as relSet), Schema.Rels (sort.Slice read as the merge sort by the translated comparison, exact because relLess is a strict total order on the distinct keys: equal to relsSorted whatever the iteration order of the map) and Type.Copy (NewFunc not modelled; on maps with unique keys the copy has the source's name and entries)",
}
GEN_USERS = {"C16": ["GenC16", "GenC15b"], "C10": ["GenC10", "GenC10b"], "C09": ["GenC10", "GenC10b", "GenC09"], "C14": ["GenC14", "GenC15", "GenC14b"], "C15": ["GenC15", "GenC15b"], "C12": ["GenC15", "GenC15b"], "C17": ["GenC14"], "C19": ["GenC14"],
             "C03": ["GenC03", "GenC03b"], "C04": ["GenC03"], "C07": ["GenC07", "GenC08", "GenC07b"], "C08": ["GenC08", "GenC07b"]}
for _pid, _mods in GEN_USERS.items():
    _c = PROPS[_pid]
    _c["modules"] = list(_c.get("modules", [_pid])) + _mods
    for _m in _mods:
        _c["theorems"] = list(_c["theorems"]) + GEN[_m]
        _c["level_text"] += (" Regenerated tie (T1b): " + GEN_WHAT[_m] + " are translated from the Go source to Lean definitions on every run and proved "
                             + ("to have the stated route patterns and to read the first five fragments only" if _m == "GenC07" else "equal to the model's definitions for every input")
                             + " (" + ", ".join(GEN[_m]) + ").")
    _c["technique"] = ("Lean 4 theorems about a hand-written model; model tied to /repo by differential correspondence (Go harness vs compiled Lean driver), "
                       "regenerated facts, and Lean definitions translated from the Go source of the pure helper functions on every run")
    _c["level_note"] += " The translator harness/cmd/translate (T1b: a fixed subset of Go - see its header) is trusted to render the syntax tree faithfully."

# Small pieces of the library brought inside the model in session 3 (Model/Misc.lean, theorems
# Props/CMisc.lean, correspondence suite `misc`): the Resources and WrapperCollection
# collections, NewIdentifiers / IDs, Type.Equal / Copy / Fields, Error.Error() and the error
# constructors, the Meta getters. Each group supports the property it is closest to.
MISC = {
    "C19": (["CM_resources_run", "CM_resources_refines", "CM_wrapCollection", "CM_wrapper_add_other_noop", "CM_wrapper_run",
             "CM_wrapper_at_no_panic", "CM_wrapper_at_negative_panics", "CM_wrapper_refines"],
            " The library's two other collections are modelled as well (Model/Misc.lean) and proved to refine a plain list: Resources (Len/At/Add, At out of range is nil) and WrapperCollection (Add keeps only wrappers, At is nil beyond the end and - as the code is written - panics on a negative index: CM_wrapper_at_negative_panics); suite `misc` runs random operation sequences on the real ones."),
    "C18": (["CM_equal_iff", "CM_equal_refl", "CM_equal_symm", "CM_equal_trans", "CM_equal_perm", "CM_equal_ignores_newfunc",
             "CM_equal_nil_vs_empty", "CM_copy_shape", "CM_equal_copy", "CM_equal_copy_nil", "CM_copy_idem", "CM_fields_copy",
             "CM_fields_sorted_perm", "CM_fields_perm"],
            " Type.Copy, Type.Equal and Type.Fields are modelled as values too (Model/Misc.lean, with the nil/empty-map distinction reflect.DeepEqual sees): a copy has the source's name, attributes, relationships and NewFunc and never a nil map (CM_copy_shape), Copy is idempotent, Equal is an equivalence insensitive to map order and to NewFunc (CM_equal_*), a type equals its copy exactly when it has no nil map (CM_equal_copy), Fields is the sorted list of field names and the same for a copy (CM_fields_*); suite `misc` compares all of it with the real code."),
    "C02": (["CM_identifiers_ids", "CM_identifiers_types", "CM_identifiers_nonnil", "CM_err_table", "CM_err_status", "CM_err_title",
             "CM_error_json_members", "CM_err_json", "CM_err_source_meta", "CM_error_string", "CM_err_error_string",
             "CM_meta_has", "CM_meta_getInt", "CM_meta_getBool", "CM_meta_absent", "CM_meta_getTime", "CM_meta_getString"],
            " The identifier helpers, the error constructors, Error.Error() and the Meta getters are modelled (Model/Misc.lean): IDs(NewIdentifiers(t, ids)) = ids with every identifier of type t (CM_identifiers_*); each of the 28 error constructors yields a status between 400 and 599 that Error() reads back, a title (NewErrBadRequest excepted: it takes its title from the caller), and a JSON object with exactly its non-empty members (CM_err_*, CM_error_json_members, CM_error_string); the Meta getters return the stored value of the asked Go type or the zero value (CM_meta_*); suite `misc` compares every constructor and getter with the real code."),
}
for _pid, (_ths, _txt) in MISC.items():
    _c = PROPS[_pid]
    _c["modules"] = list(_c.get("modules", [_pid])) + ["CMisc"]
    _c["theorems"] = list(_c["theorems"]) + _ths
    _c["suites"] = list(_c["suites"]) + [("misc", 3000, 40000)]
    _c["level_text"] += _txt

# The JSON codec of the `filter` URL parameter, inside the model since session 3
# (Model/FilterJson.lean: Filter.UnmarshalJSON on the parsed tree with encoding/json's struct
# decoding rules, json.Marshal of a Filter, the label's string body; Props/C08F.lean): the
# codec laws C08's re-parse theorem assumed (CodecLaws) are now theorems about that model
# (C08F_real_codecs) and the re-parse theorem is restated with the real codecs (C08F_reparse_real).
_c = PROPS["C08"]
_c["modules"] = list(_c.get("modules", ["C08"])) + ["C08F"]
_c["theorems"] = list(_c["theorems"]) + ["C08F_numCanon_id", "C08F_label_rt", "C08F_label_rt_valid", "C08F_label_ne", "C08F_filter_tree",
    "C08F_filter_idem", "C08F_canon_head", "C08F_filter_wf", "C08F_real_codecs", "C08F_real_codecs_id", "C08F_reparse",
    "C08F_label_rt_invalid_counterexample", "C08F_go_codecs", "C08F_parsed_filter", "C08F_reparse_real"]
_c["suites"] = list(_c["suites"]) + [("filterjson", 4000, 40000)]
_c["level_text"] += (" The filter parameter's JSON codec is modelled (Model/FilterJson.lean): Filter.UnmarshalJSON on the parsed tree - "
    "case-insensitive member lookup, later duplicates overwrite, null is a no-op on the string members, `v` kept raw, and/or values decoded as a list of "
    "filters with nil elements for null, other values decoded as `any` (objects with sorted, last-wins keys; numbers through float64, whose printing is a "
    "parameter numCanon with the two laws NumCanonLaws) - and json.Marshal of the result; the canonical text of any accepted filter text is a fixed point "
    "of decode-then-encode and the decoded tree is recovered from it (C08F_filter_idem, C08F_filter_tree), a label is recovered from its JSON string body "
    "(C08F_label_rt; for Go's writer on well-formed UTF-8: C08F_label_rt_valid, refuted beyond: C08F_label_rt_invalid_counterexample), so the laws "
    "C08_reparse assumed hold for the modelled codecs (C08F_real_codecs) and the re-parse theorem is restated with them (C08F_reparse_real). Suite "
    "`filterjson` compares the model with the real json.Unmarshal/json.Marshal on generated filter texts (nested and/or, every JSON value kind, duplicate "
    "and case-variant keys, unknown members, null elements, malformed texts) and labels.")
_c["level_note"] += (" The filter codec model reads compact JSON (no white space between tokens, no surrogate escapes, well-formed UTF-8): the generator "
    "stays inside; float64 printing is a parameter (identity on canonical integers up to 2^53 in the driver).")

# Work package D: two property-theorem files over existing models.
# C17S (Props/C17S.lean, Spec/SoftEdit.lean, Proofs/SoftEditLemmas.lean): a SoftResource whose type
# is edited while it holds values refines a plain map from the current type's field names to values.
_c = PROPS["C17"]
_c["modules"] = list(_c.get("modules", ["C17"])) + ["C17S"]
_c["theorems"] = list(_c["theorems"]) + ["C17S_step", "C17S_reads", "C17S_refines_from", "C17S_init", "C17S_refines", "C17S_typed",
    "C17S_addAttr_zero", "C17S_addAttr_taken", "C17S_addRel_zero", "C17S_removeField", "C17S_setType_kept", "C17S_setType_fresh",
    "C17S_set_get", "C17S_set_after_edit", "C17S_set_after_addAttr"]
_c["level_text"] += (" A SoftResource whose type is edited while it holds values (Set, AddAttr, AddRel, RemoveField, SetType in any order) refines, "
    "by induction over every operation list in a decidable domain, a plain map from the current type's field names to values whose step is written "
    "without check(): zero value when a field (re)appears, ill-typed Sets ignored, AddAttr/AddRel of a taken name a no-op, RemoveField drops name and "
    "value, SetType keeps exactly the values of the names that are fields of both types (C17S_refines, C17S_reads; corollaries C17S_addAttr_zero, "
    "C17S_removeField, C17S_setType_kept - also across two SetType calls with no read in between -, C17S_setType_fresh, C17S_set_after_edit); every "
    "value read stays acceptable for its field's current definition or is its zero value (C17S_typed). The Go-side oracle is the expect map of suite "
    "resource's soft-edit section.")
_c["level_note"] += (" C17S domain: AddAttr/AddRel names and SetType's field names are not 'id'; SetType's new type is keyed (key = name, attribute and "
    "relationship names disjoint) and keeps the definition of the names it keeps (the C19 decision; needed for C17S_typed only). Not assumed: that the "
    "start resource's stored values are keyed by fields of its type.")
# C06R (Props/C06R.lean): the attribute half of C06's last clause - re-marshaling an accepted attribute
# value writes the canonical JSON of what the payload's literal denotes.
_c = PROPS["C06"]
_c["modules"] = list(_c.get("modules", ["C06"])) + ["C06R"]
_c["theorems"] = list(_c["theorems"]) + ["C06R_printInt_intLit", "C06R_null", "C06R_int", "C06R_bool", "C06R_string", "C06R_time", "C06R_bytes",
    "C06R_remarshal_attr"]
_c["level_text"] += (" Re-marshaling, attribute half (Props/C06R.lean): whenever unmarshalToType accepts a raw value, the JSON written for the stored "
    "value (encodeAttr) is the canonical JSON of what the literal denotes (Spec.denotedJson, written without strconv or the encoder): null for null "
    "(nullable attributes only), the number printInt n for an integer literal denoting n - and that literal denotes n again -, the booleans, and the "
    "JSON string of the decoded string, of formatTime t, of the base64 of the decoded bytes (nil and empty both \"\") (C06R_int, C06R_bool, "
    "C06R_string, C06R_time, C06R_bytes, C06R_null, combined in C06R_remarshal_attr).")

# The payload BYTES inside the model (session 3, work package L): Spec/JsonFull.lean (a
# full-grammar JSON reader: white space, every escape, surrogates, invalid UTF-8 as U+FFFD,
# Go's depth limit), Model/Decode.lean (encoding/json's struct decoding of the library's
# skeletons: exact-then-folded member lookup, duplicates, merging maps, null, RawMessage
# text, the errors slice with its stale elements) and the six entry points from bytes;
# Props/C05B.lean lifts the C05 / C13 theorems from "every skeleton" to "every byte string".
_c = PROPS["C05"]
_c["modules"] = list(_c.get("modules", ["C05"])) + ["C05B"]
_c["theorems"] = list(_c["theorems"]) + ["C05B_total", "C05B_invalid_json", "C05B_conforms", "C05B_type", "C05B_partial_iff",
    "C05B_partial_fields", "C05B_ws_invariant_partial", "C05B_render_roundtrip", "C05B_render_roundtrip_partial"]
_c["suites"] = list(_c["suites"]) + [("bytes2", 3000, 40000)]
_c["level_text"] += (" Since session 3 the decoding of the payload bytes is modelled too (Spec/JsonFull.lean: the JSON grammar encoding/json accepts - white "
    "space, every escape, surrogate pairs, invalid UTF-8 and lone surrogates as U+FFFD, the depth limit of 10000; Model/Decode.lean: encoding/json's decoding "
    "into payloadSkeleton / resourceSkeleton / relationshipSkeleton / Identifier(s) / Error - member lookup exact then case-folded (the two non-ASCII runes that "
    "fold into ASCII included), later duplicates overwriting, repeated map members merging, null, RawMessage text without the surrounding white space, the "
    "errors slice re-using stale elements of its backing array) and the theorems are lifted to EVERY BYTE STRING: no entry point panics (C05B_total), invalid "
    "JSON is an error everywhere (C05B_invalid_json), accepted results conform to the schema (C05B_conforms, C05B_type), partial unmarshaling accepts exactly "
    "what full unmarshaling accepts and reports exactly the members present (C05B_partial_iff, C05B_partial_fields), leading white space is irrelevant "
    "(C05B_ws_invariant_partial), the text rendered for a tree is read back by the full reader (C05B_render_roundtrip*). Suite `bytes2` hands the real entry "
    "points and the model the same BYTES (no skeleton is handed over).")
_c["level_note"] += (" Byte-level model: time.Time.UnmarshalJSON on the raw text and float64 printing of numbers decoded into `any` (meta, error source) stay "
    "parameters (Delegated); the driver instantiates them on the strict RFC 3339 layout and on canonical integers up to 2^53 and both sides skip the rest "
    "(3-4 % of the generated rows); the capacity sequence of the errors slice is the observed one of this Go runtime.")

# Work package N: net/url on ARBITRARY raw strings inside the model (Spec/UrlFull.lean: url.Parse +
# Query() of go1.23.5; Model/UrlRaw.lean: NewURLFromRaw from the raw string; Props/C07B.lean; suite
# `urlraw`: the real url.Parse/Query and the real NewURLFromRaw against the model on the SAME raw string).
_c = PROPS["C07"]
_c["modules"] = list(_c.get("modules", ["C07"])) + ["C07B"]
_c["theorems"] = list(_c["theorems"]) + ["C07B_total", "C07B_total_real", "C07B_parse_error", "C07B_values_nodup", "C07B_parsed",
    "C07B_consistent", "C07B_sort_names", "C07B_order_independent", "C07B_extends_parseRaw", "C07B_raw_eq_reparse", "C07B_rawFd_eq",
    "C07B_parseRaw_differs", "C07B_fragments_nonempty", "C07B_string_plainRef", "C07B_parse_string", "C07B_reparse", "C07B_query_spec",
    "C07B_order", "C07B_order_url", "C07B_rawFd_perm", "C07B_raw_order"]
_c["suites"] = list(_c["suites"]) + [("urlraw", 4000, 60000)]
_c["level_text"] += (" From the RAW STRING (Props/C07B.lean): url.Parse and Query() of go1.23.5 are modelled on arbitrary byte strings "
    "(Spec.goUrlParse: control bytes, fragment, scheme, opaque URLs, colon in the first segment, //authority with userinfo, host, port, IPv6 "
    "literal and zone, path unescaping, Query() with ';', '+' and dropped pieces) and NewURLFromRaw is the composition newURLFromRaw. Proved, "
    "unbounded, for EVERY raw string: no panic (C07B_total); a returned URL comes from a string net/url accepts, whose values map has unique "
    "keys, and satisfies every consistency clause of C07 (C07B_parsed, C07B_consistent, C07B_sort_names); the order in which Query()'s map is "
    "ranged over is immaterial (C07B_order_independent); on plain references - no control byte, '#', scheme-like first segment, authority or "
    "';' - the full parser is the parser C08 is proved with (C07B_extends_parseRaw; the two differ outside: C07B_parseRaw_differs), everything "
    "URL.String() writes is a plain reference (C07B_string_plainRef), hence C08's re-parse theorem holds from raw string to raw string with the "
    "modelled JSON codec (C07B_parse_string, C07B_reparse); Query() is the list of kept decoded pieces grouped by key (C07B_query_spec) and "
    "permuting differently named pieces of the raw query changes neither acceptance nor path nor String() (C07B_order, C07B_order_url, "
    "C07B_raw_order). Correspondence (suite urlraw): the real url.Parse + Query() and the real NewURLFromRaw against the model on the SAME raw "
    "string - the url suite's grammar plain and decorated, assembled URLs from pools of schemes, userinfo, hosts, IPv6 literals and zones, "
    "ports, paths, query pieces, fragments with every valid and invalid escape, control and non-ASCII bytes, empty components, random byte "
    "strings, strings of tens of kilobytes - nothing decoded by net/url is handed over.")
_c["level_note"] += (" For the raw-string theorems net/url leaves the trusted base except for the validation by suite urlraw (go1.23.5). The filter "
    "parameter's JSON decode is the modelled codec inside its validated domain (well-formed UTF-8, no whitespace, no surrogate escapes, integer "
    "numerals within 2^53) and handed over by the harness outside it; the theorems hold for every decode.")

# Work package W1: compositions and corollaries asked for by the independent audit (additive).
# Item 1 - GenC07c (Props/GenC07c.lean): "never panics" on the TRANSLATED url front end, along the
# chain url.Parse -> NewSimpleURL -> NewURL as NewURLFromRaw (url.go) chains it.
_W1_GENC07C = ["Gen_NewURL_of_NewSimpleURL", "Gen_NewURLFromRaw_eq_model", "Gen_NewURLFromRaw_no_panic",
               "Gen_NewURLFromRaw_no_panic_any_decoder", "Gen_NewURLFromRaw_result"]
for _pid in ("C07", "C08"):
    _c = PROPS[_pid]; _c["modules"] = list(_c.get("modules", [_pid])) + ["GenC07c"]; _c["theorems"] = list(_c["theorems"]) + _W1_GENC07C; _c["level_text"] += (" Never panics on the TRANSLATED code (Props/GenC07c.lean): NewURLFromRaw's chain over the translated NewSimpleURL, NewParams and NewURL - the urule[0] read included - returns, for every url.Parse result, every values map with distinct keys and every pair of json.Unmarshal parameters, exactly what the model's newURLFrom returns and never Res.panic (Gen_NewURLFromRaw_eq_model, Gen_NewURLFromRaw_no_panic, Gen_NewURLFromRaw_result; Gen_NewURL_of_NewSimpleURL is the step from an accepted SimpleURL); the decoded-filter hypothesis is discharged for every decoder that leaves a non-nil *Filter non-nil on success (Gen_NewURLFromRaw_no_panic_any_decoder).")
# Item 2 - C04M (Props/C04M.lean): the exactly / iff corollaries of C04 on the MODEL's output.
_c = PROPS["C04"]; _c["modules"] = list(_c.get("modules", ["C04"])) + ["C04M"]; _c["theorems"] = list(_c["theorems"]) + ["C04M_tree", "C04M_attr_present_iff", "C04M_rel_present_iff", "C04M_data_present_iff", "C04M_data_exact", "C04M_no_entry", "C04M_not_selected", "C04M_resource_member", "C04M_collection_members", "C04M_document_members"]; _c["level_text"] += " On the MODEL's output (Props/C04M.lean): each exactly / iff corollary is restated for the tree j that marshalResource returns (C04M_attr_present_iff, C04M_rel_present_iff, C04M_data_present_iff, C04M_data_exact, C04M_no_entry, C04M_not_selected), and document-wide every resource object under `data` (single resource or each collection member, in order) and under `included` (in ID order) of the tree marshalDocument returns meets all the clauses with the selection of its own type (C04M_document_members, C04M_collection_members)."
# Item 3 - C17E (Props/C17E.lean): EqualStrict laws and soundness of Equal by field NAME.
_c = PROPS["C17"]; _c["modules"] = list(_c.get("modules", ["C17"])) + ["C17E"]; _c["theorems"] = list(_c["theorems"]) + ["C17_equalStrict_refl", "C17_equalStrict_symm", "C17_equal_sound_by_name", "C17_equal_complete_by_name", "C17_equal_iff_by_name", "C17_equalStrict_iff_by_name", "C17_equal_by_name_needs_names_counterexample"]; _c["level_text"] += " EqualStrict is reflexive and symmetric like Equal (C17_equalStrict_refl, C17_equalStrict_symm); BY NAME (Props/C17E.lean): when the two resources have the same sorted attribute-name list, Equal holds exactly when type name, relationship names and cardinalities coincide and the values of EVERY field name agree (C17_equal_sound_by_name, C17_equal_complete_by_name, C17_equal_iff_by_name, strict form C17_equalStrict_iff_by_name); without the hypothesis on the names the by-name reading fails on the known finding's witness (C17_equal_by_name_needs_names_counterexample)."
# Item 4 - C15C (Props/C15C.lean): counting form of "at least one error for each offending relationship".
_c = PROPS["C15"]; _c["modules"] = list(_c.get("modules", ["C15"])) + ["C15C"]; _c["theorems"] = list(_c["theorems"]) + ["C15C_offends_iff_offending", "C15C_namesNonEmpty_iff", "C15C_namesNonEmpty_no_quirk", "C15C_checkRel_le_two", "C15C_checkRel_pos_iff_exact", "C15C_checkRel_pos_of_offends", "C15C_checkRel_pos_iff", "C15C_checkRel_zero_iff", "C15C_checkRel_zero_imp", "C15C_checkCount_eq_sum", "C15C_count_ge", "C15C_count_le_exact", "C15C_count_le", "C15C_count_zero_imp", "C15C_count_zero_iff_partial", "C15C_count_zero_iff", "C15C_count_zero_iff_offenderCount", "C15C_count_zero_iff_counterexample", "C15C_checkRel_pos_iff_counterexample", "C15C_gen_length_ge", "C15C_gen_length_le", "C15C_gen_nil_imp", "C15C_gen_nil_iff_partial", "C15C_gen_nil_iff", "C15C_gen_nil_iff_counterexample"]; _c["level_text"] += " Counting form (Props/C15C.lean): for EVERY schema the number of errors is at least the number of offending (type, relationship) occurrences counted with multiplicity (C15C_count_ge; on the translated Check: C15C_gen_length_ge) and at most twice it, and zero exactly when no occurrence offends, on schemas without a type named \"\" (C15C_count_le, C15C_count_zero_iff, C15C_gen_nil_iff); without that hypothesis the iff is refuted (C15C_count_zero_iff_counterexample: Check tests existence by GetType(ToType).Name == \"\", so a type named \"\" targeted by ToType \"\" is reported although it exists) and the exact all-schema statement is C15C_count_zero_iff_partial / C15C_checkRel_pos_iff_exact."
# Item 5 - C10M (Props/C10M.lean): the algebraic laws on the MODEL's checkVal / isAllowed; ID-list equality = permutation.
_c = PROPS["C10"]; _c["modules"] = list(_c.get("modules", ["C10"])) + ["C10M"]; _c["theorems"] = list(_c["theorems"]) + ["C10_valEq_ids_iff_perm", "C10_valEq_ids_iff_sort", "C10_valEq_ids_not_set_counterexample", "C10_model_ids_iff_perm", "C10_model_ids_perm_invariant", "C10_comparable_of_hasAttrType", "C10_comparable_iff", "C10_model_checkVal", "C10_ord_isSome", "C10_valOrdered_eq", "C10_valLt_ordered", "C10_evalCmp_not_ordered", "C10_trichotomy_sval", "C10_model_complement", "C10_model_le_ge", "C10_comparable_symm", "C10_model_gt_swap", "C10_model_trichotomy", "C10_model_unordered", "C10_model_nil", "C10_model_nil_right", "C10_model_unordered_bool", "C10_model_unordered_ids", "C10_model_unknown_op", "C10_getAttrVal_cases", "C10_leafWellTyped_cmp", "C10_leaf_checkVal", "C10_cmp_ops", "C10_isNil_fieldVal", "C10_isAllowed_complement", "C10_isAllowed_le_ge", "C10_isAllowed_trichotomy", "C10_isAllowed_nil", "C10_isAllowed_nil_right", "C10_isAllowed_unordered", "C10_isAllowed_unknown_op", "C10_isAllowed_ids_iff_perm", "C10_wellTypedAll_mem", "C10_evalAll_iff", "C10_evalAny_iff", "C10_isAllowed_and", "C10_isAllowed_or", "C10_isAllowed_empty", "C10_isAllowed_in", "C10_isAllowed_has"]; _c["level_text"] += " On the MODEL (Props/C10M.lean): the laws are transferred to checkVal for every comparable pair - two values or two pointers of one kind, or two ID lists - (C10_model_complement, C10_model_le_ge, C10_model_trichotomy, C10_model_nil, C10_model_nil_right, C10_model_unordered, C10_model_unknown_op, C10_model_gt_swap) and to isAllowed for every well-formed resource and well-typed leaf or node (C10_isAllowed_complement / _le_ge / _trichotomy / _nil / _unordered / _unknown_op, and / or iff all / some child, in / has as membership); equality of two to-many ID lists is exactly 'permutations of each other' in the specification and in the model (C10_valEq_ids_iff_perm, C10_valEq_ids_iff_sort, C10_model_ids_iff_perm, C10_isAllowed_ids_iff_perm): multiset, not set, equality (C10_valEq_ids_not_set_counterexample)."
# Item 6 - C07T (Props/C07T.lean): resolvePath declaratively; "so the order they define is total".
_c = PROPS["C07"]; _c["modules"] = list(_c.get("modules", ["C07"])) + ["C07T"]; _c["theorems"] = list(_c["theorems"]) + ["C07T_resolvePath_iff_chain", "C07T_resolvePath_iff", "C07T_resolvePath_of_valid", "C07T_resolvePath_needs_inv", "C07T_include_kept", "C07T_include_requested", "C07T_sort_has_id", "C07T_spec_order_total", "C07T_less_total", "C07T_less_panic_possible", "C07T_less_total_wf", "C07T_order_total", "C07T_order_total_wf"]; _c["level_text"] += " Declaratively (Props/C07T.lean): resolvePath σ t words = some rels iff rels is a valid chain of the schema from t (Spec.validChain) whose relationship names are the words, on schemas with C14's invariant (C07T_resolvePath_iff; hypothesis-free form C07T_resolvePath_iff_chain, the invariant shown necessary by C07T_resolvePath_needs_inv), and C07_include_kept is restated with that notion of valid path (C07T_include_kept, C07T_include_requested); 'so the order they define is total': a collection URL's rules contain id (C07T_sort_has_id), hence for two resources with distinct IDs the specification's comparison is never a tie and the model's Less of Range either fails a type assertion (ill-typed values only: C07T_less_panic_possible) or holds in exactly one direction (C07T_order_total, C07T_less_total, C07T_spec_order_total; without the failure alternative under C09's typing hypotheses: C07T_order_total_wf, C07T_less_total_wf)."

# Work package W2: bridges from the two resource implementations to the abstract views the theorems
# quantify over (Props/Bridge.lean), the partition clause of C09 for the model's `range`
# (Props/C09P.lean) and the resource-object clauses of C03 at the document level (Props/C03D.lean).
_BRIDGE_CORE = ["SoftGood_init", "SoftGood_init_wf", "SoftGood_of_wf", "SoftGood_step", "SoftGood_run", "Soft_view_keyed", "Soft_view_wf",
    "Soft_view_ok", "Soft_view_keyedWf", "Soft_view_ViewWF", "Soft_view_all", "Soft.view_get_eq_get", "Wrapped_view_ok"]
_c = PROPS["C01"]; _c["modules"] = list(_c.get("modules", ["C01"])) + ["Bridge"]; _c["theorems"] = list(_c["theorems"]) + ["Soft_view_keyedWf", "Wrapped_view_ok", "SoftGood_init", "SoftGood_step", "SoftGood_run", "C01_roundtrip_soft", "C01_roundtrip_wrapped"]; _c["level_text"] += " Bridge (Props/Bridge.lean): the view of a soft resource in the state invariant SoftGood (established by creation, preserved by every Set/AddAttr/AddRel/RemoveField/SetType call in the domain: SoftGood_init, SoftGood_step, SoftGood_run) and the view of a well-typed wrapped value of a struct Check accepts satisfy keyedWf (Soft_view_keyedWf, Wrapped_view_ok), so the round trip holds for the two implementations themselves with only the typing of the stored values and the decoder domain of the times as hypotheses (C01_roundtrip_soft, C01_roundtrip_wrapped)."
_c = PROPS["C17"]; _c["modules"] = list(_c.get("modules", ["C17"])) + ["Bridge"]; _c["theorems"] = list(_c["theorems"]) + _BRIDGE_CORE + ["C17_equal_refl_soft", "C17_equal_refl_wrapped"]; _c["level_text"] += " Bridge (Props/Bridge.lean): the views of a soft resource in the invariant SoftGood and of a well-typed wrapped value of an accepted struct satisfy ResView.ok, ResView.keyedWf and ViewWF (Soft_view_ok, Soft_view_keyedWf, Soft_view_ViewWF, Wrapped_view_ok; the invariant is established by creation and preserved by every call in the domain: SoftGood_init, SoftGood_step, SoftGood_run), so Equal(r, r) holds for both implementations without a hypothesis on the view (C17_equal_refl_soft, C17_equal_refl_wrapped)."
_c = PROPS["C19"]; _c["modules"] = list(_c.get("modules", ["C19"])) + ["Bridge"]; _c["theorems"] = list(_c["theorems"]) + ["Soft_view_ViewWF", "Wrapped_view_ok", "C19_add_soft", "C19_add_wrapped"]; _c["level_text"] += " Bridge (Props/Bridge.lean): the domain predicate ViewWF of Add holds of the view of a soft resource of a keyed type without an 'id' field whose stored values are well typed and of a well-typed wrapped value of an accepted struct (Soft_view_ViewWF, Wrapped_view_ok), so Add of either returns normally and appends the snapshot (C19_add_soft, C19_add_wrapped)."
_c = PROPS["C20"]; _c["modules"] = list(_c.get("modules", ["C20"])) + ["Bridge"]; _c["theorems"] = list(_c["theorems"]) + ["Wrapped_view_ok", "C20_accept_marshal"]; _c["level_text"] += " 'Marshaling it succeeds' (Props/Bridge.lean): for a struct Check accepts and a well-typed wrapped value every Get of the view returns and the view is in the domain of the marshal theorems (Wrapped_view_ok), hence MarshalResource - any prefix, field selection, relationship-data map, meta - neither panics nor fails and writes the object of the specification (C20_accept_marshal)."
_c = PROPS["C09"]; _c["modules"] = list(_c.get("modules", ["C09"])) + ["C09P"]; _c["theorems"] = list(_c["theorems"]) + ["C09_pages_partition", "C09_pages_cover", "C09_pages_partition_filtered", "C09_allWf_soft"]; _c["level_text"] += " Partition for the model's Range itself (Props/C09P.lean): with collection, IDs, filter, rules and page size fixed there is one ordering of the matching resources such that page n returned by Range is its slice [n*size, (n+1)*size), pages 0..k-1 end to end are its first k*size elements (all of it once k*size reaches its length), every page is a contiguous sublist, two different pages share no ID and pages beyond the end are empty (C09_pages_partition, C09_pages_partition_filtered; coverage for size > 0: C09_pages_cover; AllWf for soft resources in the invariant: C09_allWf_soft). 'The input collection keeps its members and order' is not expressible on the functional model (said in Props/C09P.lean) and stays with the harness."
_c = PROPS["C03"]; _c["modules"] = list(_c.get("modules", ["C03"])) + ["C03D"]; _c["theorems"] = list(_c["theorems"]) + ["C03_marshalResource_shape", "C03_marshalCollection_shape", "marshalDocument_members", "C03_document_resource_objects", "treeResObjs_marshalDocument", "C03_document_members_clauses", "C03_include_unique_tree", "ResObjShape.spelled", "RelObjShape.spelled"]; _c["level_text"] += " Document level (Props/C03D.lean): for whatever the model's MarshalDocument returns - no well-formedness hypothesis on the resources - the data member is the resource object of the primary resource / the array of those of the collection's members in order / the identifier(s) / null and the included member is the array of the resource objects of the included resources, each with string type, string id, the self link prefix + type + '/' + id and relationship objects carrying the self and related links and linkage data (C03_marshalResource_shape, C03_marshalCollection_shape, C03_document_resource_objects, C03_document_members_clauses); after any history of Include calls no (type, id) pair occurs twice among the resource objects of the data and included members of the marshaled TREE (C03_include_unique_tree)."

# Work package W3 (item 1): url.go's rewrite of a leading '{' of the filter label's JSON body to \\u007b is
# part of the model (rewriteBrace in Model/Url.lean, inside URL.string; the suites url / urlraw hand over the
# UNREWRITTEN json.Marshal(label)[1:len-1]); Props/C08G.lean restates the four re-parse theorems without the
# hypothesis `hbrace` (the label's JSON body does not start with '{').
_c = PROPS["C08"]; _c["modules"] = list(_c.get("modules", ["C08"])) + ["C08G"]; _c["theorems"] = list(_c["theorems"]) + ["C08G_laws_of", "C08G_label_rt", "C08G_label_rt_valid", "C08G_real_codecs", "C08G_reparse", "C08G_reparse_codec", "C08G_reparse_real", "C08G_covers_old", "C08G_brace_label_roundtrip"]; _c["level_text"] += " The re-parse theorems no longer exclude labels starting with a brace (Props/C08G.lean): URL.String's rewrite of a leading '{' of the label's JSON body to the escape \\u007b is now part of the model of String() (rewriteBrace, compared with the real String() by the suites url and urlraw on labels such as '{x', '{', '{\"a\":1'), the modelled label decoder reads the rewritten body exactly like the body itself for every value (C08G_label_rt, C08G_real_codecs), and C08_reparse / C08F_reparse / C08F_reparse_real are restated without the hypothesis on the label's first byte (C08G_reparse under the codec laws CodecLawsG, C08G_reparse_codec and C08G_reparse_real with the modelled codec; the old theorems are instances: C08G_covers_old; the label '{a' evaluated end to end: C08G_brace_label_roundtrip). The only exclusion left is the known finding (NoEmptySelection)."
_c = PROPS["C07"]; _c["modules"] = list(_c.get("modules", ["C07"])) + ["C08G"]; _c["theorems"] = list(_c["theorems"]) + ["C07G_reparse"]; _c["level_text"] += " C07G_reparse (Props/C08G.lean) is C07B_reparse - the re-parse from raw string to raw string through the full net/url model - without the hypothesis that the filter label's JSON body does not start with '{' (URL.String's \\u007b rewrite is now inside the model)."

# Work package W3 (item 2): C11 on the MODEL's own post-state (Props/C11R.lean, Proofs/MarshalRepeatLemmas.lean).
_c = PROPS["C11"]; _c["modules"] = list(_c.get("modules", ["C11"])) + ["C11R"]; _c["theorems"] = list(_c["theorems"]) + ["C11_model_post", "C11_model_post_fixed", "C11_model_repeat", "C11_model_repeat_dom", "C11_model_repeat_n", "C11_model_repeat_bytes", "C11_model_repeat_err", "C11_model_perm"]; _c["level_text"] += " On the model's OWN post-state (Props/C11R.lean): the document marshalDocument returns is characterised for every document (C11_model_post: included list sorted by ID, each marshaled resource with the to-many lists of its selected, data-wanted relationships sorted, nothing else) and a second marshal leaves it exactly as it is (C11_model_post_fixed, no domain needed); on the domain of C02-C04, if marshalDocument d = ok (t, d') then marshalDocument d' = ok (t, d') - the same tree and the same document again (C11_model_repeat) -, hence by induction the n-th repetition on the successive post-states returns (t, d') (C11_model_repeat_n) and the bytes Json.render writes are identical at every repetition (C11_model_repeat_bytes); marshalDocument itself returns the same tree for two documents whose to-many ID lists (primary resource, collection members, included resources) are permutations of each other and whose included lists are permutations with distinct IDs (C11_model_perm: C04_document composed with the C11_perm_* theorems)."
