"""Per-property configuration of bin/check: Lean theorems that must be checked,
correspondence suites (name, quick cases, thorough cases), fact obligations."""

STD_TRUST = []

PROPS = {
    "C16": {
        "theorems": ["C16_invert_invert", "C16_normalize_mem", "C16_normalize_oneway", "C16_normalize_idem",
                     "C16_normalize_invert", "C16_string_invert", "C16_rels", "C16_rels_pair_once",
                     "C16_rels_oneway_once", "C16_rels_order", "C16_rels_perm", "C16_rels_types_perm"],
        "suites": [("schema16", 4000, 150000)],
        "level_text": "All twelve statements are Lean theorems over every relationship value (arbitrary byte-string names) and every schema value; no bound. The Go functions Invert/Normalize/String/Rels are tied to the model by running both on the same generated relationships and schemas (adversarial name pools) and by the Go-side evaluation of the laws on the real code.",
        "level_note": "Trusted: Lean kernel; propext/Classical.choice/Quot.sound; the hand-written mirror of type.go Rel.* and schema.go Rels/buildRels (validated by correspondence on every run); sort.Slice modelled as any sorting function (result unique under the total order relLess); Go map[Rel]struct{} modelled as a duplicate-free list.",
        "assumptions": ["sort.Slice returns a sorted permutation of its input (modelled by List.mergeSort; the result is unique because relLess is a total order)",
                        "Go map with Rel keys is a set of Rel values (modelled by a duplicate-free list)"],
    },
}

# Properties not (yet) claimed. Each entry: reason. Kept current by hand; a property
# moves out of here when its check is registered above.
NOT_APPLICABLE = {
}
for _i in range(1, 21):
    _k = "C%02d" % _i
    if _k not in PROPS:
        NOT_APPLICABLE[_k] = "not claimed yet: the Lean model and correspondence suite for this property are still being built (technique applies; see DESIGN.md §6)"
