"""Per-property configuration of bin/check: Lean theorems that must be checked,
correspondence suites (name, quick cases, thorough cases), fact obligations."""

STD_TRUST = []

PROPS = {
    "C09": {
        "theorems": ["C09_mergeSorter_local", "C09_less_spec", "C09_less_no_panic", "C09_less_strict_weak", "C09_range",
                     "C09_range_filtered", "C09_unique_with_id", "C09_unique_with_id_range", "C09_range_eq_spec",
                     "C09_partition", "C09_partition_all", "C09_known_uint64_counterexample", "C09_statement_false"],
        "facts": ["Facts.lessCases: the case list of sortedResources.Less's type switch, regenerated; RulesHaveCases is stated against it"],
        "suites": [("range", 2000, 60000)],
        "level_text": "PARTIAL (known finding C09-sort-uint64-family): the theorems hold for every sorting rule whose attribute has a case in Less's type switch; uint64, *uint64 and *[]byte have none on this tree, the exclusion is the explicit hypothesis RulesHaveCases, the full statement is kept as C09_statement and refuted by C09_statement_false from a concrete witness that the harness replays. Proved, unbounded: Less = the lexicographic rule order of the specification (C09_less_spec), it is a strict weak order on the collection (C09_less_strict_weak), and for every sorting function meeting sort.Sort's contract (structure Sorter + locality) Range returns exactly the page [number*size,(number+1)*size) of one sorted permutation of the matching resources, the same for every page geometry (C09_range, with the filter clause discharged by C10_eval in C09_range_filtered); with id among the rules that permutation is unique, hence independent of the initial order and of the sorting algorithm (C09_unique_with_id_range); consecutive pages partition it (C09_partition). Page arithmetic is modelled on 64-bit machine integers (wrap-around of uint multiplication, int conversion).",
        "level_note": "Trusted: Lean kernel; standard axioms; mirror of range.go (Range, Less) validated by correspondence on all three collection implementations, soft and wrapped resources, every kind; sort.Sort is parametric (any Sorter that returns a permutation, sorted when the comparator is a strict weak order on the elements, and only consults Less on distinct elements). 'Input collection unchanged' and 'non-nil result' are checked on the real code by the harness (the model is functional).",
        "assumptions": ["sort.Sort meets the Sorter contract (permutation; sorted under a strict weak order; only compares distinct elements)",
                        "IDs in the collection are unique, ids has no repeats, number*size < 2^63 (the property's domain)"],
    },
    "C10": {
        "theorems": ["C10_eval", "C10_evalAll", "C10_evalAny", "C10_complement", "C10_trichotomy", "C10_le_ge", "C10_nil",
                     "C10_nil_right", "C10_unordered_bool", "C10_unordered_ids", "C10_unknown_op", "C10_impl_independent"],
        "facts": ["every Go type name of a well-typed value is a case of checkVal's type switch (Facts.checkValCases, regenerated)"],
        "suites": [("filter", 2500, 120000)],
        "level_text": "C10_eval: for every well-formed resource view and every well-typed filter tree of any depth, the model of IsAllowed returns exactly the tree read as logic (Spec.eval) - by mutual structural recursion, unbounded. The logical laws of the property (complement, trichotomy on every ordered kind, <=/>= decomposition, nil equals only nil and is never ordered, booleans and to-many sets never ordered, unknown operator allows nothing, independence of the resource implementation) are separate theorems about the specification. checkVal's type switch is read from the source on every run (Facts.checkValCases) and its completeness is a decide-checked obligation. Correspondence: every generated (resource, filter) pair is evaluated by the real IsAllowed on a SoftResource and on a reflect.StructOf-wrapped struct, by the Lean model and by the Lean specification; all three must agree.",
        "level_note": "Trusted: Lean kernel; standard axioms; mirror of filter.go (IsAllowed, getAttrVal, checkVal, check*), validated by correspondence; bytes.Compare and Go string comparison are modelled as lexicographic order on byte lists; time.Time Equal/Before/After as comparison of (unix seconds, nanoseconds). Ill-typed filters (failed type assertions) are outside the property's domain and are modelled as panics.",
        "assumptions": ["sort.Strings inside checkSlice sorts (modelled by insertion sort; only the sorted result is used)",
                        "fmt %T names of the 30 value types are as tabulated in Kind.goName"],
    },
    "C12": {
        "theorems": ["C12_readonly", "C12_no_write_access", "C12_race_free", "C12_queries_pure", "C12_write_races"],
        "facts": ["Facts.writesThrough: for every function/method with a *Schema or *Type receiver or parameter, does it assign through it (directly, via delete, via a Type value obtained from the schema, or via a call to a function that does); regenerated on every run; C12_readonly is `decide` over it"],
        "suites": [("shared", 1500, 40000)],
        "racer": (8, 2500, 60000),
        "level_text": "PARTIAL by nature (DESIGN.md §6 C12): in the effect model every operation of the property performs only read accesses to the shared schema, because none of the Go functions it runs assigns through the schema - a regenerated syntactic fact checked by `decide` (C12_readonly); hence no interleaving of any number of threads of any length contains a race (C12_race_free), and a write would race (C12_write_races). The Go memory model is abstracted to read/write accesses of the shared schema and the write facts are syntactic (go/ast, intra-procedural taint through GetType results). Dynamic side: every operation is run on a shared schema with a deep snapshot (content and identity of the Types slice and of every Attrs/Rels map) before and after; and a -race build runs 2..16 goroutines with random mixes of the operations (schedule exploration: validation and replay, not the proof).",
        "level_note": "Trusted: Lean kernel; the fact extractor's write analysis (harness/cmd/extract); the Go race detector for the dynamic runs. Not modelled: the Go memory model beyond read/write conflicts; user-supplied NewFunc closures; Type.NewFunc being set concurrently (documented as unsafe by the library).",
        "assumptions": ["reads of Go maps and slices by several goroutines without a writer are race-free (Go memory model)"],
    },
    "C14": {
        "theorems": ["C14_inv", "C14_lookup", "C14_atomic", "C14_remove_absent", "C14_twoway"],
        "suites": [("schema14", 1500, 60000)],
        "level_text": "Invariant by induction over every finite history of the seven editing calls (C14_inv: well-formedness and no panic), atomicity of failing edits on every reachable state (C14_atomic), removal of something absent (C14_remove_absent), agreement of the lookups with the list (C14_lookup) and success + both sides of AddTwoWayRel in either direction and within one type (C14_twoway) are Lean theorems, unbounded. The real Schema/Type methods are tied to the model by replaying the same random histories (collision-heavy name alphabet) on both and comparing the result class and the full schema dump after every call; the Go side also evaluates the invariant, atomicity and the two-way clause directly on the real schema.",
        "level_note": "Trusted: Lean kernel; propext/Classical.choice/Quot.sound; hand-written mirror of schema.go editing methods and type.go AddAttr/AddRel/RemoveAttr/RemoveRel (validated by correspondence). Domain as in DESIGN.md §6 C14: Type values handed to AddType are well-formed; attribute and relationship names share one namespace. AddTwoWayRel's index-based update is modelled name-based, which coincides on every schema with unique type names (i.e. every reachable one, by C14_inv).",
        "assumptions": ["Go maps behave as finite maps (association list with unique keys)",
                        "append(s[:i], s[i+1:]...) removes element i (aliasing of the old backing array by copies of the slice header is not modelled)"],
    },
    "C15": {
        "theorems": ["C15_sound_complete", "C15_each", "C15_pure_fact", "C15_total"],
        "facts": ["writesThrough(Schema.Check)=false", "writesThrough(Schema.GetType)=false"],
        "suites": [("schema15", 3000, 100000)],
        "level_text": "Check's verdict is characterised by a Lean theorem for every schema with non-empty type names: no error iff no relationship is offending (dangling target, or inverse named but declared from another type / not reciprocated by a relationship of the target type that names it back and points back), and each offending relationship contributes at least one error. Purity: the model of Check returns no schema, and the regenerated fact that Schema.Check and Schema.GetType do not assign through their receiver is a decide-checked obligation. Correspondence compares the number of errors on schemas with planted faults of every kind; the Go side evaluates the iff and the lower bound with an independent reading of 'offending' and checks the schema dump is unchanged.",
        "level_note": "Trusted: Lean kernel; the three standard axioms; mirror of schema.go Check/GetType (validated by correspondence); the go/ast extractor for the write facts. Error texts are not modelled, only their number per relationship.",
        "assumptions": ["type names in the schema are non-empty (C14's invariant), so 'the zero Type was returned' means 'no such type'"],
    },
    "C16": {
        "theorems": ["C16_invert_invert", "C16_normalize_mem", "C16_normalize_oneway", "C16_normalize_idem",
                     "C16_normalize_invert", "C16_string_invert", "C16_rels", "C16_rels_pair_once",
                     "C16_rels_oneway_once", "C16_rels_order", "C16_rels_perm", "C16_rels_types_perm"],
        "suites": [("schema16", 4000, 150000)],
        "level_text": "All twelve statements are Lean theorems over every relationship value (arbitrary byte-string names) and every schema value; no bound. The Go functions Invert/Normalize/String/Rels are tied to the model by running both on the same generated relationships and schemas (adversarial name pools) and by the Go-side evaluation of the laws on the real code.",
        "level_note": "Trusted: Lean kernel; propext/Classical.choice/Quot.sound; the hand-written mirror of type.go Rel.* and schema.go Rels/buildRels (validated by correspondence on every run); sort.Slice modelled as any sorting function (result unique under the total order relLess); Go map[Rel]struct{} modelled as a duplicate-free list.",
        "assumptions": ["sort.Slice returns a sorted permutation of its input (modelled by List.mergeSort; the result is unique because relLess is a total order)",
                        "Go map with Rel keys is a set of Rel values (modelled by a duplicate-free list)"],
    },
    "C17": {
        "theorems": ["C17_soft_refines", "C17_wrapped_refines", "C17_indistinguishable", "C17_fresh", "C17_equal_refl",
                     "C17_equal_symm", "C17_equal_sound", "C17_equal_names_counterexample", "C17_equalStrict_id"],
        "suites": [("resource", 1200, 40000)],
        "level_text": "Refinement by induction over every history of well-typed Set calls: a SoftResource (through check()'s materialisation and pruning) and a wrapped struct (through the struct-field model, for the struct a user declares for the type) both read back, up to the canonical reading (typed/untyped nil, nil/empty byte string), the abstract map 'last value set, else the kind's zero' (C17_soft_refines, C17_wrapped_refines), hence are indistinguishable (C17_indistinguishable); fresh resources have the type's name, fields and zeros (C17_fresh). Equal is reflexive and symmetric, EqualStrict adds the ID, and Equal is sound for type name, relationship names and all values. PARTIAL (known finding C17-equal-attr-names): Equal never compares attribute names - kept as C17_equal_statement, refuted by C17_equal_names_counterexample, and the harness replays the witness. Correspondence drives both implementations side by side with the same histories and compares full views after every call; the Go side checks read-back against its own abstract map.",
        "level_note": "Trusted: Lean kernel; standard axioms; mirrors of soft_resource.go (check/Get/Set), wrapper.go (getField/setField/Get/Set), resource.go Equal/EqualStrict validated by correspondence; fmt %T type names tabulated; reflect.DeepEqual modelled as structural equality of the value model (identity of *time.Location is not modelled: equality cases use UTC times). Domain: field names are not 'id' (Get('id') is the resource ID) and, for wrapped structs, the type is declarable as a struct (Spec.structable).",
        "assumptions": ["reflect.DeepEqual on the 30 value types = structural equality of GoVal", "fmt %T names as tabulated"],
    },
    "C19": {
        "theorems": ["C19_step", "C19_refines_from", "C19_init", "C19_refines", "C19_only_add_panics", "C19_len", "C19_at",
                     "C19_resource", "C19_fields", "C19_remove_first", "C19_zero_for_later_attr", "C19_zero_for_later_rel",
                     "C19_zero_for_later_fields", "C19_snapshot", "C19_rows_stable"],
        "suites": [("collection", 1200, 40000)],
        "level_text": "Simulation by induction over every history of Add, Remove, AddAttr, AddRel and SetType (C19_refines): the SoftCollection model (shared type pointer, lazy check() with materialised zeros and pruning) refines a plain ordered list of rows (id + snapshot of accepted values) read through the current type; Len, At (nil out of range), Resource, 'exactly the current fields', 'zero for fields added later', 'Remove deletes the first match only' and 'Add depends only on what is read from its argument' are corollaries, unbounded. Correspondence replays random histories (resources of the collection's type, narrower, wider, conflicting, soft and wrapped, duplicate IDs) on the real SoftCollection and on the model and compares the full dump after every call; the Go side keeps its own ordered list as oracle and also mutates the added resource afterwards to check the snapshot.",
        "level_note": "Trusted: Lean kernel; standard axioms; mirror of soft_collection.go and soft_resource.go (check, AddAttr, AddRel, Set) validated by correspondence. Domain decisions (DESIGN.md): no field of an added resource is called 'id'; SetType's new type keeps the definition of every field name it shares with the current type (redefining the kind of a stored field is outside the domain).",
        "assumptions": ["all stored resources share the collection's *Type (modelled by keeping the type in the collection)"],
    },
    "C20": {
        "theorems": ["C20_reject", "C20_accept_build", "C20_type_exact", "C20_accept_safe", "C20_zero_WT", "C20_fields_not_ID"],
        "facts": ["Facts.checkAttrTypes: the attribute type names accepted by Check, regenerated (checkAttrTypes_iff is a decide-checked obligation)"],
        "suites": [("structs", 2500, 80000)],
        "level_text": "Over an explicit model of a Go struct declaration with tags (field name, Go type among the 28 attribute types / []string / unsupported, json tag, api tag) the theorems cover every declaration, unbounded: if Check rejects, BuildType errs and Wrap panics (C20_reject); if it accepts, BuildType and Wrap succeed and agree on name, attributes and relationships (C20_accept_build); the built type has exactly the tagged attributes and relationships with the kinds, nullability, cardinality, target and inverse the tags and Go types declare (C20_type_exact); and on an accepted struct every Get (with the type assertions marshaling makes), every well-typed Set with read-back and frame, Set/Get of the ID, New and Copy succeed without panic and keep the wrapper well-typed (C20_accept_safe). Correspondence runs Check/BuildType/Wrap and a use-script (Get/Set every declared field, id, Copy, New) on reflect.StructOf shapes from a tag/type grammar, by value and by pointer, against the model; the Go side also runs MarshalResource under recover.",
        "level_note": "Trusted: Lean kernel; standard axioms; mirror of helpers.go Check/BuildType/IDAndType and wrapper.go Wrap/Get/Set/getField/setField/Copy/New (reflect's reading of struct types is abstracted into StructDecl; validated by correspondence on ~25k generated shapes per quick run); hypothesis SingleID (Go forbids two fields named ID). Unexported and embedded fields are outside the model (the property speaks of exported fields).",
        "assumptions": ["reflect reports field order, names, types and tags as declared", "at most one field is named ID (Go language rule)"],
    },
}

# Properties not (yet) claimed. Each entry: reason. Kept current by hand; a property
# moves out of here when its check is registered above.
NOT_APPLICABLE = {
}
for _i in range(1, 21):
    _k = "C%02d" % _i
    if _k not in PROPS:
        NOT_APPLICABLE[_k] = "not claimed yet: the Lean model and correspondence suite for this property are still being built (technique applies; see DESIGN.md §6)"
